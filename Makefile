# Build of nifsim: the system under test (nifly from $(NIFLY_REPO)'s working tree, hooks on,
# ASan+UBSan), the vendored reference build (refsrc, namespace nifly_ref), and the simulator.
NIFLY_REPO ?= /repo
B          ?= build
# (no ccache: it was observed to hand back a stale object for a file that alternates between two contents)
CXX        := clang++
STD        := -std=c++17
INC_CUR    := -I$(NIFLY_REPO)/include -I$(NIFLY_REPO)/external
INC_REF    := -Irefsrc/include -Irefsrc/external
SAN        := -fsanitize=address,undefined -fno-sanitize=alignment -fsanitize-recover=undefined -fno-omit-frame-pointer
OPT        := -O1 -gline-tables-only
DEFS       := -DNIFLY_VERIF
WARN       := -w

CUR_SRCS := $(filter-out $(NIFLY_REPO)/src/Factory.cpp,$(wildcard $(NIFLY_REPO)/src/*.cpp))
CUR_OBJS := $(patsubst $(NIFLY_REPO)/src/%.cpp,$(B)/cur/%.o,$(CUR_SRCS))
REF_SRCS := $(filter-out refsrc/src/Factory.cpp,$(wildcard refsrc/src/*.cpp))
REF_OBJS := $(patsubst refsrc/src/%.cpp,$(B)/ref/%.o,$(REF_SRCS))
SIM_SRCS := $(wildcard sim/*.cpp)
SIM_OBJS := $(patsubst sim/%.cpp,$(B)/sim/%.o,$(SIM_SRCS))

.PHONY: all setup clean
all: $(B)/nifsim
setup: all

$(B)/cur/%.o: $(NIFLY_REPO)/src/%.cpp
	@mkdir -p $(dir $@)
	$(CXX) $(STD) $(OPT) $(SAN) $(DEFS) $(WARN) $(INC_CUR) -MMD -MP -c $< -o $@

# Factory.cpp holds only the 304 registrations and inline wrappers; sanitised it costs ~2 min.
$(B)/cur/Factory.o: $(NIFLY_REPO)/src/Factory.cpp
	@mkdir -p $(dir $@)
	$(CXX) $(STD) -O0 $(DEFS) $(WARN) $(INC_CUR) -MMD -MP -c $< -o $@

$(B)/ref/%.o: refsrc/src/%.cpp
	@mkdir -p $(dir $@)
	$(CXX) $(STD) -O1 -gline-tables-only $(DEFS) -Dnifly=nifly_ref $(WARN) $(INC_REF) -MMD -MP -c $< -o $@

$(B)/ref/Factory.o: refsrc/src/Factory.cpp
	@mkdir -p $(dir $@)
	$(CXX) $(STD) -O0 $(DEFS) -Dnifly=nifly_ref $(WARN) $(INC_REF) -MMD -MP -c $< -o $@

# adapter compiled once per build (C08); the reference build gets its own copy of the harness code it needs
# (typed generator, stream glue) under namespace sim_ref
REFDEFS := $(DEFS) -Dnifly=nifly_ref -Dsim=sim_ref
$(B)/sim/adapter_cur.o: sim/adapter.cxx
	@mkdir -p $(dir $@)
	$(CXX) $(STD) $(OPT) $(SAN) $(DEFS) -DPFX=cur_ $(WARN) $(INC_CUR) -Isim -MMD -MP -c -x c++ $< -o $@

$(B)/sim/adapter_ref.o: sim/adapter.cxx
	@mkdir -p $(dir $@)
	$(CXX) $(STD) -O1 -gline-tables-only $(REFDEFS) -DPFX=ref_ $(WARN) $(INC_REF) -Isim -MMD -MP -c -x c++ $< -o $@

$(B)/refsim/%.o: sim/%.cpp $(B)/gen_ref/hierarchy.inc
	@mkdir -p $(dir $@)
	$(CXX) $(STD) -O1 -gline-tables-only $(REFDEFS) $(WARN) $(INC_REF) -Isim -I$(B)/gen_ref -MMD -MP -c $< -o $@

$(B)/refsim/refstubs.o: sim/refstubs.cxx
	@mkdir -p $(dir $@)
	$(CXX) $(STD) -O1 -gline-tables-only $(REFDEFS) $(WARN) $(INC_REF) -Isim -MMD -MP -c -x c++ $< -o $@

$(B)/gen_ref/hierarchy.inc: tools/hierarchy.py $(wildcard refsrc/include/*.hpp)
	@mkdir -p $(dir $@)
	python3 tools/hierarchy.py refsrc/include > $@.tmp && mv $@.tmp $@

REFSIM_OBJS := $(B)/refsim/core.o $(B)/refsim/gen.o $(B)/refsim/refstubs.o

$(B)/sim/%.o: sim/%.cpp
	@mkdir -p $(dir $@)
	$(CXX) $(STD) $(OPT) $(SAN) $(DEFS) -Wall -Wno-unused-function -Wno-unused-variable $(INC_CUR) -Isim -I$(B)/gen -MMD -MP -c $< -o $@

$(B)/gen/hierarchy.inc: tools/hierarchy.py $(wildcard $(NIFLY_REPO)/include/*.hpp)
	@mkdir -p $(dir $@)
	python3 tools/hierarchy.py $(NIFLY_REPO)/include > $@.tmp && mv $@.tmp $@

$(SIM_OBJS): $(B)/gen/hierarchy.inc

$(B)/nifsim: $(SIM_OBJS) $(B)/sim/adapter_cur.o $(B)/sim/adapter_ref.o $(REFSIM_OBJS) $(CUR_OBJS) $(B)/cur/Factory.o $(REF_OBJS) $(B)/ref/Factory.o
	clang++ $(SAN) -o $@ $(SIM_OBJS) $(B)/sim/adapter_cur.o $(CUR_OBJS) $(B)/sim/adapter_ref.o $(REFSIM_OBJS) $(REF_OBJS) $(B)/cur/Factory.o $(B)/ref/Factory.o

clean:
	rm -rf $(B)

-include $(wildcard $(B)/cur/*.d $(B)/ref/*.d $(B)/sim/*.d $(B)/refsim/*.d)

.PHONY: libs
libs: $(CUR_OBJS) $(B)/cur/Factory.o $(REF_OBJS) $(B)/ref/Factory.o
