#!/usr/bin/env python3
"""Entry point of the nifly deterministic-simulation checks.

  check.py <Cxx> [--tier quick|thorough]     run the check of one property (VERIF_SEED, VERIF_TIER honoured)
  check.py replay <replay.json>              re-execute a recorded violation in a fresh process
  check.py build                             (re)build build/nifsim from $NIFLY_REPO's working tree

Exit codes: 0 property held on everything explored (KNOWN-FINDING lines may be printed),
            1 violation (a line "VIOLATION property=<id> replay=<path>" is printed),
            2 machinery failure (build broken, replay gate failed)."""
import faulthandler, fcntl, importlib, json, os, signal, subprocess, sys, time

faulthandler.register(signal.SIGUSR1, all_threads=True)

VERIF = os.path.dirname(os.path.abspath(__file__))
sys.path.insert(0, VERIF)
from simlib import pool as poolmod, report  # noqa: E402

COMPONENTS = {
    'real': ['nifly from the working tree of $NIFLY_REPO (all of src/*.cpp, include/*.hpp) built with ASan+UBSan and -DNIFLY_VERIF',
             'libstdc++ istream/ostream front ends', 'vendored reference build of the pinned tree (namespace nifly_ref) for C08'],
    'stub': ['stream buffers (SimIBuf/SimOBuf: EOF/EIO at offset k, write failure after k bytes, write trace)',
             'disk (in-memory images; durable = what the plan says survived)'],
    'not_simulated': ['threads, clocks, timers, network: nifly has none', 'path-based Load/Save wrappers', 'external Starfield mesh files'],
}


def build():
    os.makedirs(os.path.join(VERIF, 'build'), exist_ok=True)
    with open(os.path.join(VERIF, 'build', '.lock'), 'w') as lk:
        fcntl.flock(lk, fcntl.LOCK_EX)
        env = dict(os.environ)
        env.setdefault('NIFLY_REPO', '/repo')
        p = subprocess.run(['make', '-C', VERIF, '-j16', 'all', 'NIFLY_REPO=' + env['NIFLY_REPO']],
                           stdout=subprocess.PIPE, stderr=subprocess.STDOUT, env=env)
        if p.returncode != 0:
            sys.stdout.write(p.stdout.decode(errors='replace')[-6000:])
            print('MACHINERY: build of nifsim failed')
            sys.exit(2)


def job_handler(prop):
    def handle(w, job):
        plan = job['plan']
        agg = {'runs': 0, 'steps': 0, 'probes': {}, 'faults': {}, 'fails': [], 'ubsan': 0, 'sigs': [], 'info': None, 'hashes': []}
        frm = plan.get('from', 0)
        ncases = len(plan['cases']) if 'cases' in plan else None
        while True:
            p = dict(plan, **{'from': frm}) if ncases is not None else plan
            res = w.run(p)
            agg['runs'] += 1
            agg['steps'] += res.get('steps', 0)
            for k, v in res.get('probes', {}).items():
                agg['probes'][k] = agg['probes'].get(k, 0) + v
            for k, v in res.get('faults', {}).items():
                agg['faults'][k] = agg['faults'].get(k, 0) + v
            if res.get('status') == 'ok':
                agg['ubsan'] += res.get('ubsan', 0)
                if res.get('ubsan_first'):
                    agg.setdefault('ubsan_first', res['ubsan_first'])
                if res.get('nontrivial'):
                    agg['sigs'].append(res.get('sig'))
                agg['hashes'].append(res.get('hash'))
                agg['info'] = res.get('info')
                if res.get('notes'):
                    agg.setdefault('notes', []).extend(res['notes'])
                break
            ci = res.get('case', -1)
            if res.get('status') in ('crash', 'hang') and str(res.get('stage', '')).startswith(('synth', 'skip:')):
                # the input was still being synthesised (or its first load faulted): a rejected input, not a verdict
                agg['rejected'] = agg.get('rejected', 0) + 1
                break
            agg['fails'].append({'case': ci if ncases is not None else None, 'res': res})
            if ncases is not None and 0 <= ci < ncases - 1:
                frm = ci + 1
                continue
            break
        return agg
    return handle


def decorate_jobs(jobs, seed, prop):
    """What every check adds to the jobs of its plan generator: the stream-buffering fault and the regression plans."""
    # F-CHUNK: in about a third of the runs the simulated input streams buffer only a window of the file at a time (like a
    # file stream; an istringstream-like whole-image get area otherwise), window size drawn per run
    from simlib.prng import Rng
    for i, j in enumerate(jobs):
        r = Rng(seed, prop, 'read-window', i)
        if 'read_window' not in j['plan'] and r.chance(0.35):
            j['plan']['read_window'] = r.choice([1, 3, 16, 100, 512, 4096, 8191])
    # block layout: an eighth of the sample / API-built initial models are brought into another legal block order first
    for i, j in enumerate(jobs):
        init = j['plan'].get('init')
        r = Rng(seed, prop, 'layout', i)
        if j['plan'].get('profile') != 'flow' and isinstance(init, dict) and ('sample' in init or 'builder' in init) and 'layout' not in init and 'relabel' not in init and r.chance(0.125):
            init['layout'] = [r.below(1 << 30) for _ in range(r.range(1, 3))]
    # F-NOSEEK: in a tenth of the runs every save goes to a stream that cannot seek (pipe, socket, compressing filter)
    for i, j in enumerate(jobs):
        if 'pipe_saves' not in j['plan'] and j['plan'].get('profile') not in ('flow', 'describe') and Rng(seed, prop, 'pipe-saves', i).chance(0.1):
            j['plan']['pipe_saves'] = True
            # in half of them only every other save (1st, 3rd, ...): two consecutive saves then take the sizing-pass path and the
            # back-patching path, and every save-vs-save oracle also decides "the bytes do not depend on the kind of stream"
            if Rng(seed, prop, 'pipe-alt', i).chance(0.5):
                j['plan']['pipe_alternate'] = True
    # save options: in an eighth of the runs the non-raw saves switch on only one of optimize / sortBlocks (not for C04, whose
    # oracle is about what exactly the default save does)
    for i, j in enumerate(jobs):
        r = Rng(seed, prop, 'save-options', i)
        if prop != 'C04' and 'save_options' not in j['plan'] and j['plan'].get('profile') not in ('flow', 'describe') and r.chance(0.125):
            j['plan']['save_options'] = r.choice([1, 2])
    # F-REUSE: a tenth of the API-built initial models are built in an object that loaded a file as terrain before
    for i, j in enumerate(jobs):
        init = j['plan'].get('init')
        r = Rng(seed, prop, 'prior-terrain', i)
        if isinstance(init, dict) and 'builder' in init and 'prior_terrain_load' not in init and r.chance(0.1):
            init['prior_terrain_load'] = r.choice(['in/Static_SE', 'in/Skinned_OB', 'in/Static_FO4', 'in/Animated_LE'])
    # F-REUSE: in a fifth of the runs restarts load the saved file back into the NifFile object that wrote it
    for i, j in enumerate(jobs):
        if 'reuse_object' not in j['plan'] and Rng(seed, prop, 'reuse-object', i).chance(0.2):
            j['plan']['reuse_object'] = True
    # plans that once exposed a genuine defect (now repaired) are re-run by every check of their property
    regdir = os.path.join(VERIF, 'regressions', prop)
    if os.path.isdir(regdir):
        for fn in sorted(os.listdir(regdir)):
            if fn.endswith('.json'):
                with open(os.path.join(regdir, fn)) as f:
                    rp = json.load(f)
                jobs.insert(0, {'plan': rp.get('plan', rp), 'meta': {'kind': 'regression', 'file': fn}})
    return jobs



def run_check(prop, tier):
    t0 = time.time()
    seed = int(os.environ.get('VERIF_SEED', '1'))
    build()
    mod = importlib.import_module('simlib.p_' + prop.lower())
    pool = poolmod.Pool()
    known = report.load_known()
    try:
        jobs = mod.jobs(tier, seed, pool)
        jobs = decorate_jobs(jobs, seed, prop)
        deadline = t0 + mod.WALL_CAP[tier]
        results, skipped = pool.map(jobs, job_handler(prop), deadline=deadline)

        evaluations = 0
        nontrivial = set()
        probes, faults = {}, {}
        steps = runs = ubsan_obs = 0
        failures = []  # (job, fail)
        ubsan_first = None
        notes = []
        rejected_inputs = 0
        hist_hashes = set()
        for job, agg in zip(jobs, results):
            if agg is None:
                continue
            runs += agg['runs']
            hist_hashes.update(h for h in agg.get('hashes', []) if h)
            rejected_inputs += agg.get('rejected', 0)
            if agg.get('info') and isinstance(agg['info'], dict) and agg['info'].get('rejected_init'):
                rejected_inputs += 1
            steps += agg['steps']
            ubsan_obs += agg['ubsan']
            ubsan_first = ubsan_first or agg.get('ubsan_first')
            notes.extend(agg.get('notes', [])[:3])
            for k, v in agg['probes'].items():
                probes[k] = probes.get(k, 0) + v
            for k, v in agg['faults'].items():
                faults[k] = faults.get(k, 0) + v
            if job['meta'].get('kind') == 'regression':
                ev, nt = 1, {'regression:' + job['meta']['file']}
                probes['regression_plans_rerun'] = probes.get('regression_plans_rerun', 0) + 1
            else:
                ev, nt = mod.account(job, agg)
            evaluations += ev
            nontrivial.update(nt)
            for f in agg['fails']:
                failures.append((job, f))

        # triage failures: class, known findings, minimise + gate the rest
        by_class = {}
        machinery = []
        hang_confirm = {}
        for job, f in failures:
            cls, excerpt = report.classify(f['res'], prop)
            if cls is None:
                continue
            if '/machinery:' in cls:
                machinery.append(cls)
                continue
            if f['res'].get('status') == 'hang':
                # re-confirm a hang with three times the limit before believing it (the first few of each class only:
                # every confirmation costs a full timeout)
                tried = hang_confirm.setdefault(cls, [0, 0])
                if tried[1] == 0 and tried[0] < 3:
                    tried[0] += 1
                    plan = dict(job['plan'])
                    if f['case'] is not None:
                        plan = dict(plan, cases=[plan['cases'][f['case']]])
                        plan['case_timeout_s'] = 3 * plan.get('case_timeout_s', 20)
                    plan['timeout_s'] = 3 * plan.get('timeout_s', 30)
                    plan.pop('from', None)
                    r2 = pool.workers[0].run(plan)
                    c2, _ = report.classify(r2, prop)
                    if c2 is None:
                        notes.append('hang not confirmed at 3x limit: ' + cls)
                        continue
                    tried[1] = 1
                elif tried[1] == 0:
                    notes.append('hang class never confirmed at 3x limit, dropped: ' + cls)
                    continue
            by_class.setdefault(cls, []).append((job, f, excerpt))

        known_hits, violations = [], []
        for cls in sorted(by_class):
            items = by_class[cls]
            job, f, excerpt = items[0]
            k = report.match_known(known, prop, cls, job['plan'])
            if k:
                known_hits.append({'class': cls, 'count': len(items), 'finding': k.get('id', k['class_regex'])})
                print('KNOWN-FINDING: property=%s %s (%s; %d occurrence(s) this run)' % (prop, k['description'], cls, len(items)))
                continue
            violations.append((cls, items))

        exit_code = 0
        gate_failed = False
        reported = []
        for cls, items in violations[:6]:
            job, f, excerpt = items[0]
            runner = pool.workers[0].run
            mplan, reruns = report.minimise(job['plan'], cls, prop, runner, fail_case=f['case'], budget=10 if '/hang@' in cls else 250)
            path, why = report.gate_and_write(mplan, cls, prop, excerpt, seed, 'v%d' % len(reported))
            if path is None:
                # try the unminimised single-case plan before giving up
                plan0 = dict(job['plan'])
                plan0.pop('from', None)
                path, why2 = report.gate_and_write(plan0, cls, prop, excerpt, seed, 'v%d_full' % len(reported))
                if path is None:
                    if '/hang@' in cls:
                        # a watchdog expiry that a fresh process does not reproduce was a matter of machine load, not of the code
                        notes.append('hang not reproduced in a fresh process, dropped: %s (%s)' % (cls, why))
                        continue
                    print('MACHINERY: %s' % why)
                    gate_failed = True
                    continue
            print('VIOLATION property=%s replay=%s' % (prop, path))
            print('  class=%s occurrences=%d minimised_in=%d reruns' % (cls, len(items), reruns))
            print('  ' + (excerpt or '').strip().split('\n')[0][:300])
            reported.append({'class': cls, 'occurrences': len(items), 'replay': path})
            exit_code = 1
        for cls, items in violations[6:]:
            print('  (further violation class not minimised: %s x%d)' % (cls, len(items)))
            reported.append({'class': cls, 'occurrences': len(items)})
        if gate_failed and exit_code == 0:
            exit_code = 2   # nothing reportable was reproduced, and something was not reproducible: the machinery is in doubt
        if machinery:
            print('MACHINERY: %d run(s) failed in the harness: %s' % (len(machinery), machinery[0]))
            exit_code = 2

        wall = time.time() - t0
        own = [(j, a) for j, a in zip(jobs, results) if j['meta'].get('kind') != 'regression']
        samples = mod.samples([j for j, _ in own])
        zero_probes = [p for p in getattr(mod, 'EXPECTED_PROBES', []) if probes.get(p, 0) == 0]
        coverage = {
            'evaluations': evaluations,
            'distinct_nontrivial': len(nontrivial),
            'rule': mod.RULE,
            'samples': samples,
            'exhaustive': False,
            'runs': runs,
            'runs_per_hour': int(runs / max(wall, 1e-3) * 3600),
            'evaluations_per_hour': int(evaluations / max(wall, 1e-3) * 3600),
            'steps_total': steps,
            'distinct_states': len(hist_hashes),
            'distinct_states_measure': 'distinct 64-bit history hashes of completed runs (every step, return value, state digest and every byte written to the simulated disk enter the hash)',
            'simulated_time': 'n/a - nifly has no clock, timer or deadline; progress is counted in executed steps',
            'faults_fired': faults,
            'probes': probes,
            'probes_stuck_at_zero': zero_probes,
            'jobs_skipped_by_wall_cap': skipped,
            'rejected_inputs': rejected_inputs,
            'components': COMPONENTS,
            'known_findings_hit': known_hits,
            'violations_reported': reported,
            'ubsan_reports_observed_not_judged': ubsan_obs if not getattr(mod, 'UBSAN_JUDGED', False) else 0,
            'workers': pool.n,
        }
        if ubsan_first and not getattr(mod, 'UBSAN_JUDGED', False):
            coverage['ubsan_first_observed'] = ubsan_first
        if notes:
            coverage['notes'] = notes[:20]
        extra = getattr(mod, 'extra_coverage', None)
        if extra:
            coverage.update(extra([j for j, _ in own], [a for _, a in own]))
        report.write_evidence(prop, tier, seed, mod.LEVEL, wall, len(reported), coverage, mod.ASSUMPTIONS)
        print('%s %s: %d evaluations (%d distinct non-trivial) in %.1fs, %d violation class(es), %d known finding(s)'
              % (prop, tier, evaluations, len(nontrivial), wall, len(reported), len(known_hits)))
        return exit_code
    finally:
        pool.close()


def replay(path):
    build()
    with open(path) as f:
        rec = json.load(f)
    prop = rec['property']
    res = poolmod.exec_fresh(rec['plan'])
    cls, excerpt = report.classify(res, prop)
    print(json.dumps({k: v for k, v in res.items() if k != 'stderr'}))
    if cls:
        print(excerpt[:3000])
        same = cls == rec['expect']['class'] and (res.get('status') != 'viol' or res.get('hash') == rec['expect'].get('history_hash'))
        print('VIOLATION property=%s replay=%s' % (prop, path))
        print('  class=%s (%s recorded class/hash)' % (cls, 'same as' if same else 'DIFFERENT from'))
        return 1
    print('replay: no violation (recorded class was %s)' % rec['expect']['class'])
    return 0


def main():
    a = sys.argv[1:]
    if not a:
        print(__doc__)
        return 2
    if a[0] == 'build':
        build()
        return 0
    if a[0] == 'replay':
        return replay(a[1])
    tier = os.environ.get('VERIF_TIER', 'quick')
    if '--tier' in a:
        tier = a[a.index('--tier') + 1]
    return run_check(a[0].upper(), tier)


if __name__ == '__main__':
    sys.exit(main())
