"""C11 — a copied model is equal to and fully independent of its source (interleaved actors, destruction order)."""
from .prng import Rng
from . import inputs, hist, edits, synth

PROP = 'C11'
LEVEL = 'exploration'
WALL_CAP = {'quick': 300, 'thorough': 3000}
RUNS = {'quick': 4000, 'thorough': 40000}
RULE = ('one run = up to 4 live models (actors): model 0 from a sample / synthesised file / API-built model; Copy steps (copy-construct, assign over an empty model, '
        'assign over a loaded model, copy of a copy) interleaved by the seeded scheduler with Edit (29 NifFile-level operations), Save (raw/default), Query (battery) '
        'and Destroy steps on any actor, the others being observed (raw save taken twice + geometry through shapes) before and after every step; survivors are used '
        'after each destruction. Oracle: raw save of a fresh copy == raw save of its source; no step on X changes the observation of Y; ASan reports nothing. '
        'non-trivial = at least one copy was made; distinct = distinct (initial state, effective step trace) signatures; interleavings = distinct projected actor/op sequences.')
ASSUMPTIONS = ['edits are NifFile-level API calls (no direct deletion of a geometry-data block through the header, which dangles a cache inside the same model)',
               'self-assignment is not issued', 'an observation that is not stable under a second save is unusable and attributed to C02 (counted in a probe)']
EXPECTED_PROBES = ['independence_checked', 'survivor_used_after_destruction', 'assigned_over_loaded_model', 'initial_state_with_unknown_blocks', 'edit_through_shape_object']


def gen_plan(seed, i, tier):
    rng = Rng(seed, PROP, i)
    names = [n for n, sz in inputs.sample_names('in') if sz < 200000]
    r = rng.below(100)
    ver = None
    if r < 55:
        init = {'sample': rng.choice(names)}
        if 'OB' not in init['sample'] and rng.chance(0.2):
            init['relabel'] = [rng.below(1000) for _ in range(rng.range(1, 3))]   # a model with unknown block types
    elif r < 75:
        ver = rng.choice(['OB', 'FO3', 'SK', 'SSE', 'FO4', 'FO76'])
        init = {'settle': rng.chance(0.5), 'builder': {'version': ver, 'salt': rng.below(1 << 30), 'nodes': rng.below(3),
                                                       'shapes': [hist.shape_spec(rng, ver, 'quick', name='s%d' % k) for k in range(rng.range(1, 2))]}}
        hist.maybe_attach(rng, init, 0.4)
    else:
        # (synthesised files of every block type are copied in the sweep below; edit sequences run on samples and built models,
        # whose geometry is well-formed: an edit that faults on a malformed synthesised shape says nothing about copying)
        ver = rng.choice(['OB', 'FO3', 'SK', 'SSE', 'FO4', 'FO76'])
        init = {'settle': rng.chance(0.5), 'builder': {'version': ver, 'salt': rng.below(1 << 30), 'nodes': rng.below(4),
                                                       'shapes': [hist.shape_spec(rng, ver, 'quick', name='s%d' % k) for k in range(rng.range(1, 3))]}}
    steps = [{'op': 'Copy', 'from': 0, 'to': 1, 'how': rng.weighted([('ctor', 5), ('assign_empty', 2), ('assign_loaded', 2)])}]
    if steps[0]['how'] == 'assign_loaded':
        steps[0]['loaded'] = {'sample': rng.choice(names)}
    live = [0, 1]
    allowed = edits.swarm_subset(rng)
    for _ in range(rng.range(2, 12)):
        op = rng.weighted([('Edit', 10), ('Save', 3), ('Query', 2), ('Copy', 2), ('Destroy', 2)])
        if op == 'Copy':
            frm = rng.choice(live)
            to = rng.choice([x for x in range(4) if x != frm])
            st = {'op': 'Copy', 'from': frm, 'to': to, 'how': rng.weighted([('ctor', 4), ('assign_empty', 2), ('assign_loaded', 2)])}
            if st['how'] == 'assign_loaded':
                st['loaded'] = {'sample': rng.choice(names)}
            if to not in live:
                live.append(to)
        elif op == 'Destroy':
            if len(live) < 2:
                continue
            a = rng.choice(live)
            live.remove(a)
            st = {'op': 'Destroy', 'slot': a}
        elif op == 'Edit':
            st = {'op': 'Edit', 'slot': rng.choice(live), 'edit': edits.edit_step(rng, 'quick', version_hint=ver, allow=allowed)}
        elif op == 'Save':
            st = {'op': 'Save', 'slot': rng.choice(live), 'raw': rng.chance(0.5)}
        else:
            st = {'op': 'Query', 'slot': rng.choice(live)}
        steps.append(st)
    return {'property': PROP, 'profile': 'copy', 'run_index': i, 'init': init, 'steps': steps, 'destroy_reverse': rng.chance(0.5), 'timeout_s': 90}


def jobs(tier, seed, pool):
    out = [{'plan': gen_plan(seed, i, tier), 'meta': {}} for i in range(RUNS[tier])]
    # sweep: every registered block type x version, copied once (copy-construct or assign) and compared byte for byte
    for idx, (v, t, s) in enumerate(synth.population(3 if tier == 'quick' else 8, seed0=seed)):
        steps = [{'op': 'Copy', 'from': 0, 'to': 1, 'how': 'ctor' if idx % 3 else 'assign_empty'}, {'op': 'Destroy', 'slot': idx % 2}]
        out.append({'plan': {'property': PROP, 'profile': 'copy', 'init': synth.synth_init(v, t, s, k=3), 'steps': steps, 'timeout_s': 20}, 'meta': {}})
    return out


account = hist.account
samples = hist.samples


def extra_coverage(jobs_, results):
    inter = set()
    for a in results:
        if a and isinstance(a.get('info'), dict) and a['info'].get('interleaving'):
            inter.add(a['info']['interleaving'])
    return {'interleavings': len(inter), 'interleaving_measure': 'distinct sequences of (operation, actor) projected from the executed steps'}
