"""C16 — truncated files never crash the loader. Fault enumeration over cut points."""
from .prng import Rng
from . import inputs

PROP = 'C16'
LEVEL = 'fault_enumeration'
UBSAN_JUDGED = True
WALL_CAP = {'quick': 600, 'thorough': 3600}
RULE = ('cases = (stored file, cut offset k, fault mode in {eof: reader sees EOF at k; eio: stream goes bad at k; '
        'crash: file physically k bytes long; torn: first k bytes of the real write trace, size table not yet patched}); '
        'every k for files up to the exhaustive limit, otherwise +-16 bytes around every block boundary, a seeded stride and seeded '
        'random offsets; each case runs load -> query battery -> copy -> save(default) -> save(raw) -> reload -> battery -> destroy. '
        'non-trivial = cut strictly inside the block area (headerEnd < k < size); distinct = distinct (file, k, mode).')
ASSUMPTIONS = ['only sanitizer-visible misbehaviour (ASan, UBSan, SIGFPE, stack overflow, watchdog) is judged; what a partial model contains is not',
               'the stored file is the library\'s own raw save of the input (its normal form)',
               'torn images of unedited models equal pure prefixes once the size table is right; they are generated only for offsets before the back-patch']
EXPECTED_PROBES = ['load_ok', 'load_rejected', 'reader_hit_cut', 'reader_saw_badbit', 'reload_ok']
BATCH = 48


def cut_points(info, rng, exhaustive_limit, stride_points):
    size = info['size']
    if size <= exhaustive_limit:
        return list(range(0, size)), True
    pts = set()
    for off, ln in zip(info['blockOff'], info['blockLen']):
        for d in range(-16, 17):
            pts.add(off + d)
        # first bytes of the block (counts and flags live there) and its tail
        for d in range(0, 64, 3):
            pts.add(off + d)
    for k in range(0, info['headerEnd'] + 16):
        pts.add(k)
    stride = max(1, size // stride_points)
    phase = rng.below(stride)
    for k in range(phase, size, stride):
        pts.add(k)
    for _ in range(stride_points // 4):
        pts.add(rng.below(size))
    for d in range(0, 24):
        pts.add(size - 1 - d)
    return sorted(p for p in pts if 0 <= p < size), False


def jobs(tier, seed, pool):
    files = inputs.stored_files(tier, seed, PROP) + inputs.extra_stored_files(tier, seed, PROP)
    exhaustive_limit = 8000 if tier == 'quick' else 33000
    stride_points = 400 if tier == 'quick' else 4000
    out = []
    infos = inputs.describe_all(pool, files, PROP)
    for init, info in zip(files, infos):
        if not info or not info.get('ok'):
            continue
        rng = Rng(seed, PROP, info['hash'])
        pts, exh = cut_points(info, rng, exhaustive_limit, stride_points)
        cases = []
        for k in pts:
            cases.append({'cut': k, 'mode': 'eof'})
            r = rng.below(16)
            if r == 0:
                cases.append({'cut': k, 'mode': 'eio'})
            elif r == 1:
                cases.append({'cut': k, 'mode': 'crash'})
            elif r == 2 and k < info['traceBytes']:
                cases.append({'cut': k, 'mode': 'torn'})
        for i in range(0, len(cases), BATCH):
            out.append({'plan': {'property': PROP, 'profile': 'flow', 'init': init, 'cases': cases[i:i + BATCH],
                                 'timeout_s': 600, 'case_timeout_s': 8, 'knobs': {'battery_salt': seed % 1000}},
                        'meta': {'file': init, 'headerEnd': info['headerEnd'], 'size': info['size'], 'hash': info['hash'], 'exhaustive': exh}})
    return out


def account(job, agg):
    m = job['meta']
    cases = job['plan']['cases']
    nt = set()
    for c in cases:
        if m['headerEnd'] < c['cut'] < m['size']:
            nt.add((m['hash'], c['cut'], c['mode']))
    return len(cases), nt


def samples(jobs_):
    out = []
    for j in jobs_[:: max(1, len(jobs_) // 5)][:5]:
        out.append({'init': j['plan']['init'], 'cases': j['plan']['cases'][:3]})
    return out


def extra_coverage(jobs_, results):
    files = {}
    for j in jobs_:
        m = j['meta']
        key = str(m['file'])
        f = files.setdefault(key, {'size': m['size'], 'cut_points': 0, 'every_offset': m['exhaustive']})
        f['cut_points'] += len(j['plan']['cases'])
    return {'files': files, 'files_total': len(files)}
