"""C03 — blocks of unknown type survive load and save untouched (reader older than writer: F-SKEW)."""
from .prng import Rng
from . import inputs, hist, synth, edits as editlib

PROP = 'C03'
LEVEL = 'exploration'
WALL_CAP = {'quick': 300, 'thorough': 3000}
RULE = ('one run = a stored file with a block-size table (samples of 20.2.0.7, synthesised files of every block type in FO3..SF versions, API-built models) whose stored type '
        'names are partly replaced by names without a factory (every singleton of the type table and "all" per sample file; seeded subsets otherwise; same-length and longer '
        'names; the root\'s type included), loaded by a reader that therefore does not know them, optionally queried, saved with raw or default options and reloaded. Oracle '
        '(independent reader on input and output): same block count and order, same type name and declared size per block, byte-identical payload of every relabelled block, '
        'every string index below the old count denotes the same string, output walks to its footer and loads. non-trivial = at least one block was relabelled and the file '
        'loaded; distinct = distinct (file, subset, name variant, options).')
ASSUMPTIONS = ['only relabelled blocks are required to be byte-identical (known blocks may be normalised as in C01)', 'files without a block-size table (Oblivion) cannot carry unknown blocks and are skipped']
EXPECTED_PROBES = ['unknown_blocks_present', 'root_relabelled', 'saved_through_a_copy', 'edited_with_unknown_blocks_present']
SIZED_VERSIONS = ['FO3', 'SK', 'SSE', 'FO4', 'FO4_132', 'FO4_139', 'FO76', 'SF', 'SF173']


def jobs(tier, seed, pool):
    out = []

    viarng = Rng(seed, PROP, 'via')

    def add(init, relabel, all_=False, same_len=True, raw=True, queries=False, kind='sample', resave=False):
        p = {'property': PROP, 'profile': 'unknown', 'init': init, 'relabel': relabel, 'all': all_, 'same_len': same_len, 'raw': raw, 'queries': queries,
             'resave_first': resave, 'timeout_s': 40}
        if viarng.chance(0.3):
            # renames / texture edits / added nodes while the unknown blocks are present
            p['edits'] = [editlib.edit_step(viarng, 'quick', allow=['SetNodeName', 'RenameShape', 'SetTexture', 'SetTexturePath', 'SetNodeTransform', 'DeleteUnreferencedTyped', 'DeleteUnreferencedTyped', 'SetExportInfo'])
                          for _ in range(viarng.range(1, 3))]
        if viarng.chance(0.15) and 'sample' in init:
            # a stored file with texture paths that the loader will clean (so that strings change at load)
            init = dict(init, edits=[{'op': 'SetTexturePath', 'shape': viarng.below(4), 'salt': viarng.below(1 << 30)} for _ in range(2)])
            p['init'] = init
        v = viarng.below(10)
        if v < 3:
            p['via'] = 'copy' if v < 2 else 'assign'
            p['destroy_original'] = viarng.chance(0.7)
        out.append({'plan': p, 'meta': {'kind': kind}})

    names = [n for n, _ in inputs.sample_names('in') if 'OB' not in n]
    for fi, n in enumerate(names):
        r = Rng(seed, PROP, n)
        ntypes = 40
        if tier == 'quick':
            singles = r.sample(range(ntypes), 12)
        else:
            singles = list(range(ntypes))
        for ti in singles:
            add({'sample': n}, [ti], same_len=r.chance(0.5), raw=r.chance(0.5), queries=r.chance(0.3))
        add({'sample': n}, [], all_=True, raw=True)
        add({'sample': n}, [], all_=True, raw=False, same_len=False)
        for _ in range(20 if tier == 'quick' else 200):
            k = r.range(2, 6)
            add({'sample': n}, [r.below(1000) for _ in range(k)], same_len=r.chance(0.5), raw=r.chance(0.5), queries=r.chance(0.3))
    nseeds = 1 if tier == 'quick' else 6
    for v, t, s in synth.population(nseeds, seed0=seed, versions=SIZED_VERSIONS if tier == 'thorough' else ['FO3', 'SSE', 'FO4', 'FO76', 'SF']):
        r = Rng(seed, PROP, v, t, s)
        add(synth.synth_init(v, t, s, k=2), [r.below(1000) for _ in range(r.range(1, 3))], all_=r.chance(0.2), same_len=r.chance(0.5), raw=r.chance(0.5), kind='synth')
    for i in range(150 if tier == 'quick' else 3000):
        r = Rng(seed, PROP, 'b', i)
        ver = r.choice(['FO3', 'SK', 'SSE', 'FO4', 'FO76'])
        init = {'settle': True, 'builder': {'version': ver, 'salt': r.below(1 << 30), 'nodes': r.below(3), 'shapes': [hist.shape_spec(r, ver, 'quick', name='s0')]}}
        if ver == 'FO3' and r.chance(0.7):
            init['builder']['shapes'][0]['legacy_texturing'] = True
            init['settle'] = False   # (the stored file keeps the file names as written; settling would clean them at load)
        add(init, [r.below(1000) for _ in range(r.range(1, 3))], all_=r.chance(0.2), same_len=r.chance(0.5), raw=r.chance(0.5), kind='builder', resave=True)
    return out


account = hist.account
samples = hist.samples
