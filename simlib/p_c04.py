"""C04 — default save only permutes blocks and prunes unreferenced ones (graph model keyed by block identity)."""
from .prng import Rng
from . import inputs, hist, synth, edits

PROP = 'C04'
LEVEL = 'exploration'
WALL_CAP = {'quick': 300, 'thorough': 3000}
RUNS = {'quick': 5000, 'thorough': 50000}
GROW = ['AddNode', 'AddExtraData', 'AddLooseBlock', 'CloneShape', 'AddShape', 'SetParentNode', 'DeleteShape', 'DeleteNode', 'AlphaProperty', 'RenameShape', 'MoveBlocks', 'MoveBlocks', 'UnlinkFromNode', 'UnlinkFromNode', 'RebuildRefArray']
RULE = ('one run = a model (sample incl. collision / ordered-node / loose-block / non-zero-root files, synthesised graph of any block type x version incl. bhk constraint chains '
        'and controller chains, API-built model with several shapes and nodes; optionally grown by API edits: clones, added nodes, re-parenting, loose blocks, duplicate shape '
        'names) + 1..5 steps of PrettySortBlocks, Optimize, SetShapeOrder (identity, reversal, permutation, duplicate name, missing name, wrong length), default Save, restart. '
        'Oracle (graph model, identity = block address): blocks reachable from the root are present exactly once; every serialised reference designates the same block; '
        'every node has the same child set and lists no child more often; vanished blocks were referenced by no survivor; a parentless root is first; a second sort is the '
        'identity; every surviving block serialises to the same bytes with references, child arrays and (shapes/geometry data, when bounds are recomputed) bounding spheres '
        'masked; default save equals raw save of the optimised+sorted model block for block (two fresh loads). non-trivial = a sort/prune operation ran; distinct = distinct '
        '(initial state, edits, step trace).')
ASSUMPTIONS = ['bounding spheres are masked only for Optimize / default Save (the operations documented to recompute them)', 'node child order is not compared',
               'SetShapeOrder with a list of the wrong length must do nothing', 'models with unknown blocks are skipped (sorting is disabled there: C03)']
EXPECTED_PROBES = ['op_sort', 'op_optimize', 'op_save_default', 'op_shape_order', 'shape_order_duplicate', 'shape_order_missing', 'shape_order_wrong_length',
                   'blocks_pruned', 'blocks_permuted', 'default_equals_sorted_raw']


def gen_plan(seed, i, tier):
    rng = Rng(seed, PROP, i)
    names = [n for n, sz in inputs.sample_names('in')] + ['exp/' + n[3:] for n, sz in inputs.sample_names('in') if 'Optimize' in n]
    r = rng.below(100)
    ver = None
    if r < 45:
        init = {'sample': rng.choice(names)}
    elif r < 65:
        ver = rng.choice(['OB', 'FO3', 'SK', 'SSE', 'FO4', 'FO76'])
        shapes = [hist.shape_spec(rng, ver, 'quick', name=rng.choice(['dup', 's%d' % k])) for k in range(rng.range(1, 4))]
        for s in shapes:
            if s['nv'] > 300:
                s['nv'], s['nt'] = 20, 20
            if rng.chance(0.3):
                s['under_node'] = rng.below(4)
        init = {'settle': rng.chance(0.5), 'builder': {'version': ver, 'salt': rng.below(1 << 30), 'nodes': rng.below(5), 'shapes': shapes}}
        hist.maybe_attach(rng, init, 0.4, len(shapes))
    else:
        types = synth.block_types()
        if rng.chance(0.5):
            # collision / constraint graphs and controller chains: the graph shapes the sorter treats specially
            types = [t for t in types if t.startswith('bhk') or 'Controller' in t or 'Interpolator' in t or 'Collision' in t or 'Sequence' in t]
        t = rng.choice(types)
        while t in synth.BUILDER_ONLY:
            t = rng.choice(types)
        init = synth.synth_init(rng.choice(synth.VERSIONS), t, rng.below(1 << 20), k=rng.range(2, 4), helpers=8)
    plan = {'property': PROP, 'profile': 'sortprune', 'run_index': i, 'init': init, 'timeout_s': 90}
    if rng.chance(0.4):
        grow = GROW if 'synth' not in init else ['AddNode', 'AddExtraData', 'AddLooseBlock', 'SetNodeName', 'ReplaceWithClone', 'MoveBlocks', 'UnlinkFromNode', 'RebuildRefArray']
        plan['pre'] = [edits.edit_step(rng, 'quick', allow=grow, version_hint=ver) for _ in range(rng.range(1, 5))]
        if rng.chance(0.3):
            plan['pre'].append({'op': 'MoveBlocks', 'mode': 'nodes', 'salt': rng.below(1 << 30), 'shape': 0})   # node blocks in another order
    steps = []
    for _ in range(rng.range(1, 5)):
        op = rng.weighted([('PrettySort', 4), ('Optimize', 2), ('SetShapeOrder', 4), ('SaveDefault', 3), ('Restart', 1)])
        st = {'op': op}
        if op == 'SetShapeOrder':
            st.update({'mode': rng.weighted([('identity', 1), ('reverse', 2), ('perm', 3), ('dup', 3), ('missing', 2), ('wronglen', 1)]), 'salt': rng.below(1 << 30)})
        steps.append(st)
    plan['steps'] = steps
    return plan


def jobs(tier, seed, pool):
    out = [{'plan': gen_plan(seed, i, tier), 'meta': {}} for i in range(RUNS[tier])]
    # sweep: every collision / constraint / controller / interpolator type (the graphs the sorter treats specially) x 4 versions,
    # sorted and default-saved once
    special = [t for t in synth.block_types() if (t.startswith('bhk') or 'Controller' in t or 'Interpolator' in t or 'Collision' in t or 'Sequence' in t)
               and t not in synth.BUILDER_ONLY]
    for v in ['FO3', 'SK', 'SSE', 'FO4']:
        for t in special:
            for k in range(1 if tier == 'quick' else 4):
                r = Rng(seed, PROP, 'sweep', v, t, k)
                out.append({'plan': {'property': PROP, 'profile': 'sortprune', 'init': synth.synth_init(v, t, r.below(1 << 20), k=3, helpers=8),
                                     'steps': [{'op': 'PrettySort'}, {'op': 'SaveDefault'}], 'timeout_s': 90}, 'meta': {}})
                # the same type hung type-correctly below a shape of an API-built model (reachable from the root, so that pruning keeps it),
                # stored in another block order so that the sort has something to move
                sh = hist.shape_spec(r, v, 'quick', name='s0')
                sh['nv'], sh['nt'] = r.range(4, 30), r.range(2, 30)
                init = {'builder': {'version': v, 'salt': r.below(1 << 30), 'nodes': r.below(3), 'shapes': [sh]},
                        'attach': [{'type': t, 'seed': r.below(1 << 20), 'shape': 0, 'wide_pointers': True}], 'layout': [r.below(1 << 30) for _ in range(2)]}
                out.append({'plan': {'property': PROP, 'profile': 'sortprune', 'init': init, 'steps': [{'op': 'PrettySort'}, {'op': 'SaveDefault'}], 'timeout_s': 90}, 'meta': {}})
    return out


account = hist.account
samples = hist.samples
