"""C07 — saved header tables describe the written file exactly (write monitor + independent reader)."""
from .prng import Rng
from . import inputs, hist, synth, edits

PROP = 'C07'
LEVEL = 'exploration'
WALL_CAP = {'quick': 300, 'thorough': 3000}
RULE = ('one run = a model (sample, synthesised file of any block type x version, API-built model) edited by 0..8 NifFile-level steps (vertex deletion, cloning, added shapes / '
        'nodes / extra data / loose blocks, conversion LE<->SE, deletions, sorting, renames, texture edits) with saves and restarts in between (restarts into a fresh object or back into the object that wrote the file; the object is also reused for another sample file or a newly created model of another version); every file written is parsed by '
        'the independent reader: block count, type table (no duplicate, no unused name), type of every block, size of every block (== independent serialisation of that block), '
        'walk from header end by the size table lands on the 8-byte footer at EOF, string table without duplicates (no unknown blocks), max string length, every string index '
        'field (located by the string hook) empty or inside the table. non-trivial = at least one file was written and walked; distinct = distinct (initial state, effective step trace).')
ASSUMPTIONS = ['30 % of the intermediate saves go to a non-seekable stream (fault F-NOSEEK: tellp() fails, the size table cannot be back-patched)', 'versions without a table are skipped for that table (Oblivion: no sizes, no string table; the walk then uses independent serialisation sizes)',
               'nifparse shares no code with nifly']
EXPECTED_PROBES = ['object_reused_for_another_file', 'object_reused_for_a_new_model', 'restart_into_same_object', 'files_walked', 'edit_delete_verts', 'edit_clone_shape', 'edit_add_loose_block', 'edit_convert', 'edit_add_shape']


def gen_plan(seed, i, tier):
    rng = Rng(seed, PROP, i)
    names = [n for n, sz in inputs.sample_names('in')]
    old_names = [n for n in names if n.endswith('_OB') or '_OB_' in n or 'OB' in n.split('_')] or names
    r = rng.below(100)
    ver = None
    if r < 55:
        init = {'sample': rng.choice(names)}
        if 'OB' not in init['sample'] and rng.chance(0.2):
            init['relabel'] = [rng.below(1000) for _ in range(rng.range(1, 3))]   # the reader lacks factories for some block types (F-SKEW): tables are kept, not rebuilt
    elif r < 80:
        ver = rng.choice(['OB', 'FO3', 'SK', 'SSE', 'FO4', 'FO76'])
        init = {'settle': rng.chance(0.3), 'builder': {'version': ver, 'salt': rng.below(1 << 30), 'nodes': rng.below(3),
                                                       'shapes': [hist.shape_spec(rng, ver, 'quick', name='s%d' % k) for k in range(rng.range(1, 2))]}}
        hist.maybe_attach(rng, init, 0.4)
    else:
        types = synth.block_types()
        t = rng.choice(types)
        while t in synth.BUILDER_ONLY:
            t = rng.choice(types)
        init = synth.synth_init(rng.choice(synth.VERSIONS), t, rng.below(1 << 20), k=2)
    synth_init = 'synth' in init
    swarm = edits.swarm_subset(rng)
    safe = ['AddNode', 'AddExtraData', 'AddLooseBlock', 'SetNodeName', 'SetNodeTransform', 'PrettySort', 'Optimize', 'DeleteUnreferenced', 'ReplaceWithClone', 'TrimTexturePaths', 'FixBSXFlags', 'FixShaderFlags', 'MoveBlocks', 'UnlinkFromNode', 'RebuildRefArray', 'SetExportInfo', 'DeleteUnreferencedTyped']
    steps = []
    for _ in range(rng.range(0, 8)):
        if rng.chance(0.2):
            st = {'op': rng.choice(['Save', 'Restart']), 'raw': rng.chance(0.5)}
            if st['op'] == 'Save' and rng.chance(0.3):
                st['pipe'] = True
            if st['op'] == 'Restart' and rng.chance(0.3):
                st['fail_first'] = rng.below(20000)   # a save attempt lost to a failing stream before the one that counts    # the file goes to a stream that cannot seek (pipe, socket, compressor)
            if st['op'] == 'Restart' and rng.chance(0.3):
                st['same_object'] = True
            steps.append(st)
        elif rng.chance(0.06):
            # object reuse: the same NifFile object goes on with another file or a new model (often of an older version)
            if rng.chance(0.7):
                pool_ = old_names if rng.chance(0.5) else names
                steps.append({'op': 'LoadInto', 'sample': rng.choice(pool_)})
            else:
                ver = rng.choice(['OB', 'OB', 'FO3', 'SK', 'SSE', 'FO4', 'FO76'])
                steps.append({'op': 'CreateInto', 'version': ver})
            synth_init = False
        else:
            steps.append(edits.edit_step(rng, 'quick', version_hint=ver, allow=safe if synth_init else swarm))
    return {'property': PROP, 'profile': 'writemon', 'run_index': i, 'init': init, 'steps': steps, 'final_raw': rng.chance(0.5), 'timeout_s': 60}


def jobs(tier, seed, pool):
    out = [{'plan': gen_plan(seed, i, tier), 'meta': {}} for i in range(6000 if tier == 'quick' else 60000)]
    for kind in ('in', 'exp'):
        for n, _ in inputs.sample_names(kind):
            for raw in (True, False):
                out.append({'plan': {'property': PROP, 'profile': 'writemon', 'init': {'sample': n}, 'steps': [], 'final_raw': raw, 'timeout_s': 60}, 'meta': {}})
    return out


account = hist.account
samples = hist.samples
