"""C15 — corrupted block references never crash loading, querying or saving. Fault enumeration (F-ROT)."""
from .prng import Rng
from . import inputs

PROP = 'C15'
LEVEL = 'fault_enumeration'
UBSAN_JUDGED = True
WALL_CAP = {'quick': 600, 'thorough': 3600}
KINDS = ['empty', 'count', 'beyond', 'self', 'ancestor', 'root', 'wrongtype', 'sametype', 'rand']
RULE = ('cases = (stored file, 1..3 reference fields, corruption kind per field in {empty, =count, beyond count (incl. 0x7FFFFFFF, '
        '0xFFFFFFFE), self, an ancestor on the intact graph, root, a block of another type, arbitrary in-range}); singles: every '
        'reference field x every kind per file; doubles/triples: seeded samples biased to fields of the same or adjacent blocks. '
        'Each case: patched image -> load -> query battery -> copy -> save(default) -> save(raw) -> reload of the output -> battery. '
        'non-trivial = at least one stored value actually changed; distinct = distinct (file, patch list).')
ASSUMPTIONS = ['reference fields are located by the NIFLY_VERIF block-reference hook while the library writes the file',
               'only the listed stages are exercised: no editing API is called on the damaged model',
               'a Load that returns an error is accepted (the statement asks that the file still loads; rc != 0 on a reference-only corruption is reported as a violation)']
EXPECTED_PROBES = ['load_ok', 'reload_ok']
BATCH = 32


def jobs(tier, seed, pool):
    files = inputs.stored_files(tier, seed, PROP) + inputs.extra_stored_files(tier, seed, PROP)
    infos = inputs.describe_all(pool, files, PROP)
    out = []
    for init, info in zip(files, infos):
        if not info or not info.get('ok') or not info['refs']:
            continue
        rng = Rng(seed, PROP, info['hash'])
        refs = info['refs']
        nref = len(refs)
        cases = []
        max_single_fields = 150 if tier == 'quick' else 100000
        fields = list(range(nref))
        if nref > max_single_fields:
            fields = sorted(rng.sample(fields, max_single_fields))
        for f in fields:
            for k in KINDS:
                cases.append({'patch': [{'f': f, 'k': k, 'a': rng.below(1 << 20)}]})
        nmulti = (400 if tier == 'quick' else 6000)
        nmulti = min(nmulti, nref * nref * 8)
        for _ in range(nmulti):
            n = 2 if rng.chance(0.7) else 3
            f0 = rng.below(nref)
            patch = []
            for i in range(n):
                if i == 0:
                    f = f0
                elif rng.chance(0.7):
                    f = max(0, min(nref - 1, f0 + rng.range(-6, 6)))   # same / adjacent block
                else:
                    f = rng.below(nref)
                patch.append({'f': f, 'k': rng.choice(KINDS), 'a': rng.below(1 << 20)})
            cases.append({'patch': patch})
        for i in range(0, len(cases), BATCH):
            out.append({'plan': {'property': PROP, 'profile': 'flow', 'init': init, 'cases': cases[i:i + BATCH],
                                 'timeout_s': 900, 'case_timeout_s': 8, 'knobs': {'battery_salt': seed % 1000}},
                        'meta': {'file': init, 'hash': info['hash'], 'nrefs': nref, 'all_fields': len(fields) == nref}})
    return out


def account(job, agg):
    m = job['meta']
    nt = set()
    for c in job['plan']['cases']:
        nt.add((m['hash'], tuple((p['f'] % m['nrefs'], p['k'], p['a']) for p in c['patch'])))
    return len(job['plan']['cases']), nt


def samples(jobs_):
    out = []
    for j in jobs_[:: max(1, len(jobs_) // 5)][:5]:
        out.append({'init': j['plan']['init'], 'cases': j['plan']['cases'][:2] + j['plan']['cases'][-1:]})
    return out


def extra_coverage(jobs_, results):
    files = {}
    for j in jobs_:
        m = j['meta']
        f = files.setdefault(str(m['file']), {'reference_fields': m['nrefs'], 'cases': 0, 'every_field_x_every_kind': m['all_fields']})
        f['cases'] += len(j['plan']['cases'])
    return {'files': files, 'files_total': len(files), 'kinds': KINDS}
