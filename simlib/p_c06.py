"""C06 — block-graph edits keep every reference on its target and the header consistent (lock-step graph model)."""
from .prng import Rng
from . import inputs, hist, synth

PROP = 'C06'
LEVEL = 'exploration'
WALL_CAP = {'quick': 300, 'thorough': 3000}
RUNS = {'quick': 6000, 'thorough': 80000}
RULE = ('one run = a model (sample, synthesised graph of any block type x version, API-built model, or empty Create(version)) + 3..25 steps of AddBlock (populated instance of '
        'any of the 304 registered types, its serialised references pointed at existing blocks), DeleteBlock (by index, or through a reference stored in another block: the NiRef overload as the library\'s own helpers call it), ReplaceBlock, SetBlockOrder (seeded permutation), '
        'DeleteBlockByType (all / orphaned only), DeleteUnreferencedBlocks, restart. After every step the header accessors are compared with an executable model of an '
        'indexed object graph (identity = block address): block count, block at every index, every enumerated reference designates the same block or is empty iff its '
        'target was deleted, no block twice, no empty slot, header type name of every block. At restarts and at the end the saved file is checked by the independent reader '
        '(type table without unused/duplicate names, sizes) and the reloaded graph has the same order, types and serialised reference values. Many short runs on small '
        'graphs stand in for the bounded-exhaustive part of the quantifier (enumeration would be model checking). non-trivial = an operation changed the graph; distinct = '
        'distinct (initial state, effective step trace).')
ASSUMPTIONS = ['only valid ids and permutations are issued (API preconditions)', 'geometry-data blocks cached by a NiGeometry are not deleted/replaced through the header (dangling cache inside one model: not this property)',
               'references of an added block are those its Get serialises in the model\'s version; others stay empty', 'pruning is not issued while the model has unknown blocks']
EXPECTED_PROBES = ['op_add', 'op_delete', 'op_replace', 'op_reorder', 'op_delete_by_type', 'op_delete_by_type_orphaned', 'op_prune', 'deleted_referenced_block', 'op_replace_same_type', 'op_delete_via_stored_ref', 'op_pretty_sort']


def gen_plan(seed, i, tier):
    rng = Rng(seed, PROP, i)
    small = [n for n, sz in inputs.sample_names('in') if sz < 70000]
    r = rng.below(100)
    if r < 35:
        init = {'sample': rng.choice(small)}
    elif r < 55:
        ver = rng.choice(['OB', 'FO3', 'SK', 'SSE', 'FO4', 'FO76'])
        s = hist.shape_spec(rng, ver, 'quick', name='s0')
        if s['nv'] > 300:
            s['nv'], s['nt'] = 20, 20
        init = {'builder': {'version': ver, 'salt': rng.below(1 << 30), 'nodes': rng.below(3), 'shapes': [s]}}
        hist.maybe_attach(rng, init, 0.4)
    elif r < 85:
        types = synth.block_types()
        t = rng.choice(types)
        while t in synth.BUILDER_ONLY:
            t = rng.choice(types)
        init = synth.synth_init(rng.choice(synth.VERSIONS), t, rng.below(1 << 20), k=2)
    else:
        init = {'create': rng.choice(synth.VERSIONS)}
    steps = []
    for _ in range(rng.range(3, 25 if tier == 'thorough' else 14)):
        op = rng.weighted([('AddBlock', 6), ('DeleteBlock', 5), ('ReplaceBlock', 2), ('SetBlockOrder', 3), ('DeleteByType', 2), ('DeleteUnref', 1), ('Restart', 1), ('PrettySort', 1)])
        st = {'op': op, 'block': rng.below(1 << 16)}
        if op in ('AddBlock', 'ReplaceBlock'):
            st.update({'type': rng.below(100000), 'seed': rng.below(1 << 20), 'wire': rng.below(1 << 20)})
            if op == 'ReplaceBlock' and rng.chance(0.35):
                st['same_type'] = True
        elif op == 'DeleteBlock':
            if rng.chance(0.5):
                st.update({'via_ref': True, 'pick': rng.below(1 << 16)})
        elif op == 'SetBlockOrder':
            st.update({'salt': rng.below(1 << 30), 'keep_root': rng.chance(0.7)})
        elif op == 'DeleteByType':
            st['orphaned'] = rng.chance(0.5)
        steps.append(st)
    steps.append({'op': 'Restart'})
    return {'property': PROP, 'profile': 'blockedit', 'run_index': i, 'init': init, 'steps': steps, 'timeout_s': 60}


def jobs(tier, seed, pool):
    return [{'plan': gen_plan(seed, i, tier), 'meta': {}} for i in range(RUNS[tier])]


account = hist.account
samples = hist.samples
