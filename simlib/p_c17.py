"""C17 — segment/partition labels round-trip and always partition the triangles."""
from .prng import Rng
from . import inputs, hist

PROP = 'C17'
LEVEL = 'exploration'
WALL_CAP = {'quick': 200, 'thorough': 2400}
RUNS = {'quick': 8000, 'thorough': 60000}
RULE = ('one run = FO4/FO76 BSSubIndexTriShape (API-built, or the FO4 samples) or a skinned OB/FO3/SK/SSE shape + 1..6 steps of SetShapeSegments '
        '(1..5 segments with 0..3 sub-segments, labels incl. -1, an empty segment, permuted part ids; optionally labels on a segment that also has '
        'sub-segments) / SetShapePartitions (labels incl. -1), vertex deletions and restarts. Oracle: labels read back equal the given ones under the '
        'documented increasing renumbering, -1 triangles all land in one range, stored triangles are the stable sort of the previous ones by label, '
        'ranges contiguous, ordered, within and summing to the triangle count; the expectation is carried through deletions (survivors keep labels) '
        'and restarts. non-trivial = labels set on a shape with triangles; distinct = distinct signatures.')
ASSUMPTIONS = ['labels are drawn from the part ids present in the info plus -1 (other values index the renumbering table out of range: API precondition)',
               'builder triangles are pairwise distinct so that a triangle identifies its label after reordering',
               'partition labels are compared right after SetShapePartitions (vertex deletion legitimately drops partitions that became empty)']
EXPECTED_PROBES = ['label_unassigned', 'segment_left_empty', 'permuted_ids', 'segments_after_delete', 'partition_labels_read_back',
                   'label_on_segment_with_subsegments']


def gen_plan(seed, i, tier):
    rng = Rng(seed, PROP, i)
    mode = rng.weighted([('seg', 7), ('part', 2), ('sample', 1)])
    if mode == 'sample':
        init = {'sample': rng.choice(['in/Skinned_FO4', 'in/Static_FO4', 'in/Static_FO4_132', 'in/Static_FO4_139'])}
    elif mode == 'seg':
        ver = rng.choice(['FO4', 'FO4', 'FO76'])
        s = hist.shape_spec(rng, ver, tier, name='s0', want_skin=rng.chance(0.3), allow_kinds=False)
        if s['nv'] > 3000 or s['nv'] < 3:
            s['nv'], s['nt'] = 20, 30
        init = {'settle': rng.chance(0.5), 'builder': {'version': ver, 'salt': rng.below(1 << 30), 'nodes': rng.below(2), 'shapes': [s]}}
    else:
        ver = rng.choice(['OB', 'FO3', 'SK', 'SSE'])
        s = hist.shape_spec(rng, ver, tier, name='s0', want_skin=True, allow_kinds=False)
        if s['nv'] > 3000 or s['nv'] < 3:
            s['nv'], s['nt'] = 20, 30
        s['bones'] = rng.range(1, 12)
        init = {'settle': rng.chance(0.5), 'builder': {'version': ver, 'salt': rng.below(1 << 30), 'nodes': rng.below(2), 'shapes': [s]}}
    steps = []
    setop = 'SetPartitions' if mode == 'part' else 'SetSegments'
    n = rng.range(1, 6)
    for k in range(n):
        op = setop if k == 0 else rng.weighted([(setop, 3), ('DeleteVerts', 4), ('Restart', 3)])
        st = {'op': op, 'shape': 0}
        if op == 'SetSegments':
            st.update({'subs': [rng.below(4) for _ in range(rng.range(1, 5))], 'salt': rng.below(1 << 30), 'unassigned': rng.chance(0.3),
                       'permute': rng.chance(0.5), 'leave_empty': rng.chance(0.3), 'ssf': rng.chance(0.3),
                       'parent_labels': rng.chance(0.15)})
        elif op == 'SetPartitions':
            st.update({'nparts': rng.below(6), 'salt': rng.below(1 << 30), 'unassigned': rng.chance(0.3), 'leave_empty': rng.chance(0.3),
                       'oor': rng.chance(0.25), 'oor_exact': rng.chance(0.5)})   # labels one (or two) past the partition list: the list grows
        elif op == 'DeleteVerts':
            st['verts'] = hist.vert_selector(rng)
            if st['verts']['kind'] in ('all',):
                st['verts'] = {'kind': 'random', 'frac': 0.2, 'salt': rng.below(1 << 30)}
        elif op == 'Restart':
            st.update({'save': 'raw', 'dtor': rng.chance(0.8)})
        steps.append(st)
    return {'property': PROP, 'profile': 'mesh', 'run_index': i, 'init': init, 'steps': steps, 'timeout_s': 60}


def _with_blind(plan, seed, i):
    """a deletion directly followed by a restart is, in a third of the cases, not observed in between"""
    r = Rng(seed, PROP, 'blind', i)
    st = plan['steps']
    for k in range(len(st) - 1):
        if st[k].get('op') == 'DeleteVerts' and st[k + 1].get('op') == 'Restart' and r.chance(0.35):
            st[k]['blind'] = True
    return plan


def _with_faults(plan, seed, i):
    # a quarter of the restarts first lose a save attempt to a failing stream (disk full / EIO after k bytes), then retry
    r = Rng(seed, PROP, 'wfail', i)
    for st in plan['steps']:
        if st.get('op') == 'Restart' and r.chance(0.25):
            st['fail_first'] = r.weighted([(r.below(400), 2), (r.below(20000), 3)])
    return plan


def jobs(tier, seed, pool):
    return [{'plan': _with_blind(_with_faults(gen_plan(seed, i, tier), seed, i), seed, i), 'meta': {}} for i in range(RUNS[tier])]


account = hist.account
samples = hist.samples
