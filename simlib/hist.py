"""Shared pieces of the history profiles (one plan = one run)."""


def account(job, agg):
    return 1, set(s for s in agg['sigs'] if s)


def samples(jobs_, n=4):
    step = max(1, len(jobs_) // n)
    return [j['plan'] for j in jobs_[::step][:n]]


def mesh_sizes(rng, tier):
    """(nv, nt) with a bias to tiny meshes and to the limits."""
    r = rng.below(100)
    if r < 8:
        nv = rng.choice([1, 2, 3, 4])
    elif r < 70:
        nv = rng.range(5, 40)
    elif r < 90:
        nv = rng.range(41, 300)
    elif r < 97:
        nv = rng.choice([255, 256, 257, 1000, 2000])
    else:
        nv = rng.choice([65534, 65535]) if tier == 'thorough' else rng.choice([4000, 8191])
    maxt = (nv - 2) * (nv - 1) // 2 if nv >= 3 else 0
    if nv > 3000:
        nt = min(maxt, rng.choice([nv, 2 * nv, 65535]))
    else:
        nt = min(maxt, rng.range(1, max(1, 2 * nv)))
    return nv, nt


def vert_selector(rng):
    k = rng.weighted([('single', 3), ('prefix', 2), ('suffix', 2), ('random', 5), ('alternate', 1), ('all', 1), ('allbut', 1)])
    d = {'kind': k}
    if k in ('single', 'allbut'):
        d['n'] = rng.below(70000)
    elif k in ('prefix', 'suffix'):
        d['n'] = rng.weighted([(1, 2), (rng.range(2, 10), 3), (rng.range(10, 300), 1)])
    elif k == 'alternate':
        d['n'] = rng.below(2)
    elif k == 'random':
        d['frac'] = rng.choice([0.02, 0.1, 0.2, 0.5, 0.9])
        d['salt'] = rng.below(1 << 30)
    return d


LE_VERSIONS = ['OB', 'FO3', 'SK']
BS_VERSIONS = ['SSE', 'FO4', 'FO76']


def shape_spec(rng, version, tier, name='shape', want_skin=None, allow_kinds=True):
    nv, nt = mesh_sizes(rng, tier)
    s = {'name': name, 'nv': nv, 'nt': nt, 'salt': rng.below(1 << 30), 'uv': rng.chance(0.85), 'normals': rng.chance(0.8)}
    if rng.chance(0.3):
        s['colors'] = True
        # conversions drop the colour channel only when every colour is opaque white: the boundary cases are generated on purpose
        s['color_mode'] = rng.weighted([('random', 6), ('white', 1), ('white_alpha', 2), ('white_but_one', 1)])
    if rng.chance(0.3):
        s['tangents'] = True
    if rng.chance(0.2):
        s['xform'] = True
    if rng.chance(0.15):
        s['alpha'] = True
    if allow_kinds:
        if version in LE_VERSIONS and rng.chance(0.25):
            s['kind'] = 'strips'
        elif version == 'SSE' and rng.chance(0.3):
            s['kind'] = rng.choice(['meshlod', 'dynamic'])
        elif version == 'FO4' and rng.chance(0.15):
            s['kind'] = 'meshlod'
    skin = want_skin if want_skin is not None else rng.chance(0.5)
    if skin and version not in ('FO76', 'SF') and s.get('kind') != 'strips' and nv <= 3000:
        s['bones'] = rng.weighted([(1, 1), (rng.range(2, 8), 4), (rng.range(9, 30), 2), (rng.range(60, 120), 1)])
        if version in ('FO4',) and s['bones'] > 100:
            s['bones'] = 100
        s['wpv'] = rng.range(0, 6)
        s['partitions'] = rng.weighted([(1, 3), (rng.range(2, 4), 2)])
        if rng.chance(0.3):
            s['some_unweighted'] = True
    if version in ('FO4', 'FO76') and s.get('kind') is None and rng.chance(0.5):
        s['segments'] = {'subs': [rng.below(4) for _ in range(rng.range(1, 5))], 'ssf': 'Meshes\\v.ssf' if rng.chance(0.3) else ''}
    if version in ('SSE', 'FO4', 'FO76') and rng.chance(0.1) and s.get('kind') != 'dynamic':
        s['eyedata'] = True   # (dynamic shapes derive eye data from x at every save: not an independent attribute)
    if version in ('FO4', 'FO76') and rng.chance(0.2):
        s['fullprec'] = True
    if rng.chance(0.15):
        s['lockednorm'] = True
    if version in ('OB', 'FO3') and rng.chance(0.25):
        s['legacy_texturing'] = True
    if version == 'OB' and rng.chance(0.2):
        s['two_uv_sets'] = True   # NiTexturingProperty -> NiSourceTexture with file names as exporters leave them
    return s


def maybe_attach(rng, init, p=0.3, nshapes=1):
    """With probability p, populated blocks of arbitrary registered types are hung type-correctly below a shape of an API-built
    model (controllers, extra data, collision objects, properties, ... via carrier blocks where needed; sim/gen.cpp attachBelowShape)."""
    if 'builder' in init and rng.chance(p):
        init['attach'] = [{'type_index': rng.below(100000), 'seed': rng.below(1 << 20), 'shape': rng.below(max(1, nshapes)), 'required': False}
                          for _ in range(rng.range(1, 2))]
    return init
