"""C13 — geometry written through the API is what is read back, in every version."""
from .prng import Rng
from . import hist

PROP = 'C13'
LEVEL = 'exploration'
WALL_CAP = {'quick': 300, 'thorough': 3000}
RUNS = {'quick': 10000, 'thorough': 80000}
RULE = ('one run = Create(version in OB/FO3/SK/SSE/FO4/FO76) + CreateShapeFromData(random mesh: 1..65535 vertices with a bias to 1,2,3,255/256 and the limit, pairwise distinct '
        'in-range triangles, optional UVs/normals) followed by 0..8 setter steps (positions, UVs, normals, tangents+bitangents, colours, eye data, triangles, bounds, full '
        'precision) and restarts; after every step every getter (copy and pointer forms) is compared with the mesh model under the quantisation table of the storage form: '
        'exact for float storage, half precision (|x|/1024) for FO4/FO76 positions and all BSTriShape UVs after a restart, 1/255 for packed normals/tangents, 1/255+1/256 for '
        'packed colours; triangles in order; all per-vertex arrays have the vertex count; every index is valid. non-trivial = a shape was created; distinct = distinct '
        '(version, mesh, step trace).')
ASSUMPTIONS = ['setters whose contract requires a matching size get matching sizes', 'SetVertsForShape with a different count (documented to drop other data) is not issued',
               'bounds are compared only across raw saves (default saves recompute them)']
EXPECTED_PROBES = ['triangle_count_above_16_bit', 'vertex_limit_mesh', 'tiny_mesh', 'set_tangents', 'set_colors', 'set_eyedata', 'set_triangles', 'full_precision']


def gen_plan(seed, i, tier):
    rng = Rng(seed, PROP, i)
    ver = rng.choice(['OB', 'FO3', 'SK', 'SSE', 'FO4', 'FO76'])
    nv, nt = hist.mesh_sizes(rng, 'thorough' if (tier == 'thorough' or rng.chance(0.02)) else 'quick')
    big_tris = ver in ('FO4', 'FO76') and rng.chance(0.04)
    if big_tris:
        # more triangles than a 16-bit counter holds (legal from FO4 on: the triangle count is 32 bits wide there)
        nv = rng.range(380, 600)
        nt = rng.range(65536, 70000)
    plan = {'property': PROP, 'profile': 'geomapi', 'run_index': i, 'version': ver, 'nv': nv, 'nt': nt, 'salt': rng.below(1 << 30),
            'uv': rng.chance(0.8), 'normals': rng.chance(0.7), 'halfexact': rng.chance(0.2), 'timeout_s': 90}
    steps = []
    for _ in range(rng.range(0, 8)):
        op = rng.weighted([('SetVerts', 3), ('SetUVs', 3), ('SetNormals', 3), ('SetTangents', 2), ('SetColors', 3), ('SetEyeData', 1), ('SetTriangles', 2),
                           ('SetBounds', 1), ('FullPrecision', 1), ('Restart', 3)])
        st = {'op': op, 'salt': rng.below(1 << 30)}
        if op == 'SetTriangles':
            st['nt'] = rng.range(0, max(1, 2 * min(nv, 400)))
            if big_tris and rng.chance(0.5):
                st['nt'] = rng.range(65536, 70000)
        steps.append(st)
    if rng.chance(0.8):
        steps.append({'op': 'Restart'})
    plan['steps'] = steps
    return plan


def jobs(tier, seed, pool):
    return [{'plan': gen_plan(seed, i, tier), 'meta': {}} for i in range(RUNS[tier])]


account = hist.account
samples = hist.samples
