"""Typed-synthesis population: every registered block type x version configuration."""
import subprocess, functools
from . import pool as poolmod

VERSIONS = ['OB', 'FO3', 'SK', 'SSE', 'FO4', 'FO4_132', 'FO4_139', 'FO76', 'SF', 'SF173', 'OB10_2', 'OB20_0_0_4', 'OB10_1_0_106']
BUILDER_ONLY = {'BSTriShape', 'BSSubIndexTriShape', 'BSDynamicTriShape', 'BSMeshLODTriShape', 'BSGeometry'}


@functools.lru_cache(None)
def block_types():
    out = subprocess.run([poolmod.NIFSIM, 'types'], stdout=subprocess.PIPE, stderr=subprocess.DEVNULL, env=poolmod.child_env())
    return [l.strip() for l in out.stdout.decode().split('\n') if l.strip()]


def synth_init(version, btype, seed, k=2, helpers=6):
    return {'synth': {'version': version, 'type': btype, 'seed': seed, 'k': k, 'helpers': helpers}}


def population(nseeds, seed0=0, versions=None):
    """(version, type, seed) for every cell; BSTriShape family cells are served by builders instead."""
    out = []
    for v in (versions or VERSIONS):
        for t in block_types():
            if t in BUILDER_ONLY:
                continue
            for s in range(nseeds):
                out.append((v, t, seed0 * 1000 + s))
    return out


def is_rejected(res):
    """a crash/hang while the input was still being synthesised is a rejected input, not a violation"""
    return res.get('status') in ('crash', 'hang') and str(res.get('stage', '')).startswith('synth')
