"""C08 — wire format stays compatible with the reference release (two library builds exchanging files)."""
from .prng import Rng
from . import inputs, hist, synth

PROP = 'C08'
LEVEL = 'exploration'
WALL_CAP = {'quick': 400, 'thorough': 3600}
RULE = ('one run = one file F (synthesised with populated fields by the typed generator of EITHER build for a block type x version configuration, a sample file, or an API-built '
        'model) exchanged between a slot running the working tree and a slot running the vendored reference build (pinned tree, namespace nifly_ref) in one process: '
        'A = cur.save(cur.load(F)), B = ref.save(ref.load(F)); precondition: ref is self-consistent on F (ref.save(ref.load(B)) == B, otherwise skipped and counted); '
        'ref.load(A) and cur.load(B) succeed and consume exactly up to the footer; ref.save(ref.load(A)) == ref.save(ref.load(B)) and cur.save(cur.load(B)) == '
        'cur.save(cur.load(A)). Stage markers separate "input rejected by the build that generated it" from faults of one build on the other\'s file (a violation). '
        'non-trivial = both builds accepted F and all comparisons ran; distinct = distinct (input spec, generating build).')
ASSUMPTIONS = ['the reference build is the pinned tree 32497ec plus the hook patch, compiled without sanitizers',
               'comparison through one encoder on both sides tolerates repaired derived values in the working tree; any change of field order, width or version gate makes one side mis-parse',
               'inputs on which the reference build is not a fixed point are skipped (counted in probe skipped_reference_not_self_consistent)']
EXPECTED_PROBES = ['input_generated_by_reference_build', 'input_generated_by_current_build', 'outputs_identical', 'skipped_reference_not_self_consistent']


def jobs(tier, seed, pool):
    out = []

    def add(init, gen, kind, cell=None):
        out.append({'plan': {'property': PROP, 'profile': 'twobuild', 'init': init, 'gen': gen, 'timeout_s': 20}, 'meta': {'kind': kind, 'cell': cell}})

    for kind in ('in', 'exp'):
        for n, _ in inputs.sample_names(kind):
            add({'sample': n}, 'cur', 'sample')
    nseeds = 4 if tier == 'quick' else 12
    for v, t, s in synth.population(nseeds, seed0=seed):
        if tier == 'quick':
            add(synth.synth_init(v, t, s, k=2), 'cur' if (hash_parity(v, t, s, seed)) else 'ref', 'synth', (v, t))
        else:
            add(synth.synth_init(v, t, s, k=2), 'cur', 'synth', (v, t))
            add(synth.synth_init(v, t, s, k=2), 'ref', 'synth', (v, t))
    for i in range(300 if tier == 'quick' else 4000):
        r = Rng(seed, PROP, 'b', i)
        ver = r.choice(['OB', 'FO3', 'SK', 'SSE', 'FO4', 'FO76'])
        init = {'settle': True, 'builder': {'version': ver, 'salt': r.below(1 << 30), 'nodes': r.below(3), 'shapes': [hist.shape_spec(r, ver, 'quick', name='s0')]}}
        if r.chance(0.5):
            init['edits'] = [{'op': 'SetExportInfo', 'shape': 0, 'salt': r.below(1 << 30)}]   # header export info around the one-byte chunk limit
        add(init, 'cur', 'builder')
    return out


def hash_parity(v, t, s, seed):
    from .prng import hash_ints
    return hash_ints(v, t, s, seed) & 1


account = hist.account
samples = hist.samples


def extra_coverage(jobs_, results):
    cells, done = set(), set()
    kinds = {}
    for j, a in zip(jobs_, results):
        if a is None:
            continue
        kinds[j['meta']['kind']] = kinds.get(j['meta']['kind'], 0) + 1
        if j['meta']['kind'] == 'synth':
            c = tuple(j['meta']['cell'])
            cells.add(c)
            if a['sigs']:
                done.add(c)
    return {'inputs_by_kind': kinds, 'programs': 2,
            'types_versions_covered': {'cells': len(cells), 'compared_at_least_once': len(done), 'builder_sourced_types': sorted(synth.BUILDER_ONLY)}}
