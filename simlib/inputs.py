"""Initial states: the repository's sample files, typed-synthesis specs, builder specs."""
import os
from .prng import Rng

REPO = os.environ.get('NIFLY_REPO', '/repo')


def sample_names(kind='in'):
    d = os.path.join(REPO, 'tests', 'input' if kind == 'in' else 'expected')
    out = []
    for n in sorted(os.listdir(d)):
        if n.endswith('.nif'):
            k = n[:-4]
            if k.startswith('TestNifFile_'):
                k = k[len('TestNifFile_'):]
            out.append((kind + '/' + k, os.path.getsize(os.path.join(d, n))))
    return out


def samples_by_size(kind='in'):
    return sorted(sample_names(kind), key=lambda t: (t[1], t[0]))


VERSIONS = ['OB', 'FO3', 'SK', 'SSE', 'FO4', 'FO4_132', 'FO4_139', 'FO76', 'SF', 'SF173', 'OB10_2', 'OB20_0_0_4', 'OB10_1_0_106']


def stored_files(tier, seed, prop):
    """Files for the fault-enumeration profiles (C15, C16)."""
    names = samples_by_size('in')
    if tier == 'quick':
        if prop == 'C16':
            pick = [n for n, sz in names if sz <= 12500] + ['in/Skinned_SE', 'in/Animated_LE', 'in/Skinned_OB', 'in/Skinned_Dynamic_SE']
        else:
            pick = ['in/SF', 'in/Static_FO4_139', 'in/Static_SE', 'in/Skinned_FO4', 'in/Furniture_Col_SE', 'in/Animated_LE',
                    'in/Skinned_SE', 'in/Skinned_OB', 'in/Skinned_Dynamic_SE']
        seen, out = set(), []
        for p in pick:
            if p not in seen:
                seen.add(p)
                out.append({'sample': p})
        return out
    return stored_files_thorough(seed, prop)


def extra_stored_files(tier, seed, prop):
    """Synthesised, API-built and edited models as stored files (quick: a seeded handful; thorough: many)."""
    from . import synth, hist, edits
    rng = Rng(seed, prop, 'extra-files')
    out = []
    types = [t for t in synth.block_types() if t not in synth.BUILDER_ONLY]
    nsynth = 16 if tier == 'quick' else 900
    for _ in range(nsynth):
        out.append(synth.synth_init(rng.choice(synth.VERSIONS), rng.choice(types), rng.below(1 << 20), k=2))
    nbuild = 5 if tier == 'quick' else 150
    for _ in range(nbuild):
        ver = rng.choice(['OB', 'FO3', 'SK', 'SSE', 'FO4', 'FO76'])
        s = hist.shape_spec(rng, ver, 'quick', name='s0')
        if s['nv'] > 60:
            s['nv'], s['nt'] = rng.range(4, 40), rng.range(2, 40)
        out.append({'builder': {'version': ver, 'salt': rng.below(1 << 30), 'nodes': rng.below(3), 'shapes': [s]}})
    # several skinned shapes of different sizes in one file (a damaged reference can then designate the skin, partition or
    # data of another shape of the same kind)
    nmulti = 4 if tier == 'quick' else 60
    for k in range(nmulti):
        ver = ['SSE', 'SK', 'FO4', 'SSE'][k % 4] if tier == 'quick' else rng.choice(['OB', 'FO3', 'SK', 'SSE', 'FO4', 'FO76'])
        shapes = []
        for j in range(rng.range(2, 3)):
            sh = hist.shape_spec(rng, ver, 'quick', name='m%d' % j, want_skin=True)
            sh['nv'], sh['nt'] = rng.range(4, 12) * (j + 1), rng.range(2, 20)
            sh['bones'] = rng.range(2, 10)          # (few bone nodes: the number of cut / patch points grows with the block count)
            sh.setdefault('wpv', 3)
            sh.setdefault('partitions', 1)
            shapes.append(sh)
        if ver == 'SSE':
            shapes[0]['kind'] = 'dynamic'
            shapes[0].pop('eyedata', None)
        if ver in ('FO4', 'FO76'):
            shapes[-1].pop('kind', None)
            shapes[-1]['segments'] = {'subs': [2, 0, 1, 3][:rng.range(2, 4)], 'ssf': 'Meshes\\v.ssf' if rng.chance(0.5) else ''}   # a segmentation with sub-segments
        out.append({'store_sorted': k % 2 == 0, 'builder': {'version': ver, 'salt': rng.below(1 << 30), 'nodes': rng.below(3), 'shapes': shapes}})
    # strip-based geometry (NiTriStrips, strip partitions): counts and lengths of several strips precede the points
    nstrips = 2 if tier == 'quick' else 30
    for k in range(nstrips):
        ver = ['FO3', 'OB', 'SK'][k % 3]
        sh = hist.shape_spec(rng, ver, 'quick', name='st%d' % k, want_skin=(k % 2 == 1))
        sh['nv'], sh['nt'] = rng.range(6, 20), rng.range(4, 16)
        sh['kind'] = 'strips'
        for key in ('bones', 'wpv', 'partitions', 'some_unweighted'):
            sh.pop(key, None)
        out.append({'store_sorted': True, 'builder': {'version': ver, 'salt': rng.below(1 << 30), 'nodes': rng.below(2), 'shapes': [sh]}})
    small = [n for n, sz in sample_names('in') if sz < 30000]
    nedit = 3 if tier == 'quick' else 120
    for _ in range(nedit):
        out.append({'sample': rng.choice(small), 'edits': [edits.edit_step(rng, 'quick') for _ in range(rng.range(1, 4))]})
    return out


def stored_files_thorough(seed, prop):
    names = samples_by_size('in')
    out = [{'sample': n} for n, _ in names]
    # expected/ holds the golden outputs (sorted, optimised, converted): different bytes for the converted ones
    for n, _ in samples_by_size('exp'):
        if 'Optimize' in n or 'FixBSX' in n or 'FixShader' in n:
            out.append({'sample': n})
    return out


def describe_all(pool, files, prop):
    jobs = [{'property': prop, 'profile': 'describe', 'init': f, 'timeout_s': 120} for f in files]
    res, _ = pool.map(jobs, lambda w, j: w.run(j))
    return [r.get('info') if r and r.get('status') == 'ok' else None for r in res]
