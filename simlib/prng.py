"""Deterministic PRNG (splitmix64) — the only source of randomness in plan generation.
One stream per (VERIF_SEED, property, run index); never consumed by logging or reporting."""
M = (1 << 64) - 1


def _mix(x):
    x = (x + 0x9E3779B97F4A7C15) & M
    z = x
    z = ((z ^ (z >> 30)) * 0xBF58476D1CE4E5B9) & M
    z = ((z ^ (z >> 27)) * 0x94D049BB133111EB) & M
    return x, z ^ (z >> 31)


def hash_ints(*vals):
    h = 0x243F6A8885A308D3
    for v in vals:
        if isinstance(v, str):
            for ch in v.encode():
                h = ((h ^ ch) * 0x100000001B3) & M
            v = len(v)
        h ^= (v & M)
        _, h = _mix(h)
    return h


class Rng:
    def __init__(self, *seed_parts):
        self.x = hash_ints(*seed_parts)

    def next(self):
        self.x, z = _mix(self.x)
        return z

    def below(self, n):
        return (self.next() >> 11) % n if n > 0 else 0

    def range(self, lo, hi):  # inclusive
        return lo + self.below(hi - lo + 1)

    def unit(self):
        return (self.next() >> 11) / float(1 << 53)

    def chance(self, p):
        return self.unit() < p

    def choice(self, seq):
        return seq[self.below(len(seq))]

    def weighted(self, pairs):
        tot = sum(w for _, w in pairs)
        r = self.unit() * tot
        for v, w in pairs:
            r -= w
            if r < 0:
                return v
        return pairs[-1][0]

    def sample(self, seq, k):
        seq = list(seq)
        out = []
        for _ in range(min(k, len(seq))):
            out.append(seq.pop(self.below(len(seq))))
        return out

    def shuffle(self, seq):
        seq = list(seq)
        for i in range(len(seq) - 1, 0, -1):
            j = self.below(i + 1)
            seq[i], seq[j] = seq[j], seq[i]
        return seq
