"""C10 — skin partitions always cover the shape's triangles exactly once. Histories against the mesh model."""
from .prng import Rng
from . import inputs, hist

PROP = 'C10'
LEVEL = 'exploration'
WALL_CAP = {'quick': 200, 'thorough': 2400}
RUNS = {'quick': 6000, 'thorough': 60000}
SKINNED_SAMPLES = ['in/Skinned_OB', 'in/Skinned_SE', 'in/Skinned_Dynamic_SE', 'in/Optimize_LE_to_SE', 'in/Optimize_SE_to_LE',
                   'in/Optimize_Dynamic_LE_to_SE', 'in/Optimize_Dynamic_SE_to_LE', 'in/Skinned_NoNiSkinDataWeights', 'in/Animated_LE']
RULE = ('one run = skinned model (sample, or built through the API for OB/FO3/SK/SSE with 1..120 bones and 0..6 weights per vertex) + 1..8 steps of '
        'SetShapePartitions (labels incl. -1, ids beyond the list, a partition left empty), UpdateSkinPartitions, SetDefaultPartition, '
        'DeletePartitions(+reassign), RemoveEmptyPartitions, DeleteVertsForShape, restart. Oracle: triangle multiset of the shape == disjoint union '
        'of the partitions\' true triangles; after UpdateSkinPartitions and after a restart additionally vertex maps == used vertices (sorted, unique), '
        'mapped triangles translate back, bone limit 18 (OB/FO3) / 80 (SSE), weights >= 0 summing to 1 or all 0, bone slots and bone ids in range, '
        'dismember list aligned. non-trivial = a partition assignment or rebuild on a shape with triangles; distinct = distinct signatures.')
ASSUMPTIONS = ['builder meshes contain no duplicate or degenerate triangles (the library cannot tell duplicates apart when it maps triangles to partitions)',
               'after a bare SetShapePartitions only the cover-once part is checked (vertex maps are completed lazily at save/update)',
               'DeletePartitions is followed by the documented reassignment of orphaned triangles before the cover is checked']
EXPECTED_PROBES = ['multi_partition', 'bone_limit_split_or_shared_slot', 'label_unassigned', 'label_out_of_range', 'partition_left_empty',
                   'partition_emptied_and_removed', 'partitions_deleted', 'restart_after_rebuild', 'rebuilt_after_triangles_were_replaced']


def gen_plan(seed, i, tier):
    rng = Rng(seed, PROP, i)
    if rng.chance(0.25):
        init = {'sample': rng.choice(SKINNED_SAMPLES)}
    else:
        ver = rng.choice(['OB', 'FO3', 'SK', 'SSE', 'SSE'])
        s = hist.shape_spec(rng, ver, tier, name='s0', want_skin=True, allow_kinds=False)
        if s['nv'] > 3000 or s['nv'] < 3:
            s['nv'], s['nt'] = 30, 40
        s['bones'] = rng.weighted([(1, 1), (rng.range(2, 10), 4), (rng.range(11, 40), 3), (rng.range(60, 120), 2)])
        s['wpv'] = rng.range(0, 6)
        s['partitions'] = rng.weighted([(1, 3), (rng.range(2, 5), 3)])
        init = {'settle': rng.chance(0.5), 'builder': {'version': ver, 'salt': rng.below(1 << 30), 'nodes': rng.below(3), 'shapes': [s]}}
    steps = []
    for _ in range(rng.range(1, 8)):
        op = rng.weighted([('SetPartitions', 5), ('UpdateSkinPartitions', 5), ('SetDefaultPartition', 1), ('DeletePartitions', 2),
                           ('RemoveEmptyPartitions', 2), ('DeleteVerts', 2), ('Restart', 2), ('AddTriangles', 2)])
        st = {'op': op, 'shape': rng.below(4)}
        if op == 'SetPartitions':
            st.update({'nparts': rng.below(6), 'salt': rng.below(1 << 30), 'unassigned': rng.chance(0.3), 'oor': rng.chance(0.25), 'oor_exact': rng.chance(0.5), 'leave_empty': rng.chance(0.3)})
        elif op == 'AddTriangles':
            st['salt'] = rng.below(1 << 30)
        elif op == 'DeletePartitions':
            st['which'] = rng.below(1 << 8)
        elif op == 'DeleteVerts':
            st['verts'] = hist.vert_selector(rng)
            if st['verts']['kind'] in ('all', 'allbut'):
                st['verts'] = {'kind': 'random', 'frac': 0.2, 'salt': rng.below(1 << 30)}
        elif op == 'Restart':
            st.update({'save': rng.choice(['raw', 'raw', 'default']), 'dtor': rng.chance(0.8)})
        steps.append(st)
        if op == 'AddTriangles':
            steps.append({'op': 'UpdateSkinPartitions', 'shape': st['shape']})   # new triangles are followed by the rebuild that has to place them
    if rng.chance(0.7):
        steps.append({'op': 'UpdateSkinPartitions', 'shape': steps[-1]['shape']})
    if rng.chance(0.6):
        steps.append({'op': 'Restart', 'save': 'raw', 'dtor': True})
    return {'property': PROP, 'profile': 'mesh', 'run_index': i, 'init': init, 'steps': steps, 'timeout_s': 60}


def _with_blind(plan, seed, i):
    """an operation directly followed by a restart is, in a third of the cases, not observed in between"""
    r = Rng(seed, PROP, 'blind', i)
    st = plan['steps']
    for k in range(len(st) - 1):
        if st[k].get('op') != 'Restart' and st[k + 1].get('op') == 'Restart' and r.chance(0.35):
            st[k]['blind'] = True
    return plan


def _with_faults(plan, seed, i):
    # a quarter of the restarts first lose a save attempt to a failing stream (disk full / EIO after k bytes), then retry
    r = Rng(seed, PROP, 'wfail', i)
    for st in plan['steps']:
        if st.get('op') == 'Restart' and r.chance(0.25):
            st['fail_first'] = r.weighted([(r.below(400), 2), (r.below(20000), 3)])
    return plan


def jobs(tier, seed, pool):
    return [{'plan': _with_blind(_with_faults(gen_plan(seed, i, tier), seed, i), seed, i), 'meta': {}} for i in range(RUNS[tier])]


account = hist.account
samples = hist.samples
