"""C14 — cloning a shape yields a self-contained copy and leaves the source untouched (source/destination actors)."""
from .prng import Rng
from . import inputs, hist, synth

PROP = 'C14'
LEVEL = 'exploration'
WALL_CAP = {'quick': 300, 'thorough': 3000}
RUNS = {'quick': 2500, 'thorough': 50000}
RULE = ('one run = source model S (sample or API-built, every geometry kind, skinned or not, model-space shaders) and destination D in {S itself, fresh Create(version), '
        'another loaded/built model of the same version}; steps: CloneShape (repeated), restart of D (raw/default save, forget, load), destruction of S followed by use of D, '
        'query battery on D. Sweep: for every registered block type x {OB, FO3, SK, SSE, FO4, FO76} an API-built shape gets a populated block of that type hung below it '
        '(type-fitting slot of the shape / its shader / alpha property, or through synthesised carrier blocks: controller -> interpolator -> data ...), is stored, loaded and cloned. Oracle per clone: geometry, weights, bone list and texture paths equal the source\'s (normals/tangents exempt for model-space shaders in SK/SSE); '
        'every bone is a node of D; a renumbering-invariant content signature of the subgraph reachable from the clone (every block serialised on its own, child references '
        'replaced by the child\'s signature, pointers by the target\'s type and name, string indices by strings) equals the source\'s; S\'s observation is unchanged; the clone '
        'is found with the same signature after D\'s restart. non-trivial = a clone was made; distinct = distinct signatures of (initial state, destination kind, step trace).')
ASSUMPTIONS = ['graph comparison is up to block renumbering (CloneChildren iterates a pointer-ordered set)', 'source and destination have the same file version',
               'an observation of S that is not stable under a second save is unusable and attributed to C02']
EXPECTED_PROBES = ['attached_below_shape', 'attached_below_shape_via_carrier', 'cloned_skinned_shape', 'cloned_model_space_shape', 'source_observed', 'clone_survived_restart', 'destination_used_after_source_destroyed']

BY_VERSION = {
    'SSE': ['in/Static_SE', 'in/Skinned_SE', 'in/Skinned_Dynamic_SE', 'in/Furniture_Col_SE', 'in/MultiBound_SE', 'in/OrderedNode_SE', 'in/Optimize_SE_to_LE',
            'in/Optimize_Dynamic_SE_to_LE', 'in/FixBSXFlags_AddExtEmit', 'in/FixShaderFlags_AddEnvMap', 'in/Skinned_NoNiSkinDataWeights', 'in/RootNonZero', 'in/LooseBlocks_SE', 'in/DeepGraph_SE'],
    'SK': ['in/Optimize_LE_to_SE', 'in/Optimize_Dynamic_LE_to_SE', 'in/Animated_LE'],
    'FO4': ['in/Static_FO4', 'in/Skinned_FO4'],
    'OB': ['in/Skinned_OB'],
}


def gen_plan(seed, i, tier):
    rng = Rng(seed, PROP, i)
    ver = rng.weighted([('SSE', 5), ('SK', 3), ('FO4', 3), ('OB', 2), ('FO3', 1), ('FO76', 1)])

    def some_init():
        if ver in BY_VERSION and rng.chance(0.55):
            return {'sample': rng.choice(BY_VERSION[ver])}
        shapes = [hist.shape_spec(rng, ver, 'quick', name='s%d' % k) for k in range(rng.range(1, 3))]
        for s in shapes:
            if rng.chance(0.25):
                s['msn'] = True
            if s['nv'] > 2000:
                s['nv'], s['nt'] = 30, 40
        b = {'version': ver, 'salt': rng.below(1 << 30), 'nodes': rng.below(4), 'shapes': shapes}
        if rng.chance(0.15):
            b.update({'nodes': rng.range(3, 7), 'dup_nodes': True})   # several nodes share a name
            for s in shapes:
                s['under_node'] = rng.below(6)
        return {'settle': True, 'builder': b}

    init = some_init()
    if rng.chance(0.3):
        # the stored layout other tools leave: shapes in front of their parent node, shapes moved below added nodes
        init['edits'] = [{'op': rng.choice(['AddNode', 'SetParentNode', 'SetParentNode', 'MoveBlocks', 'MoveBlocks']), 'shape': rng.below(8), 'salt': rng.below(1 << 30)}
                         for _ in range(rng.range(1, 4))]
    dest = rng.weighted([('same', 3), ('fresh', 4), ('other', 3)])
    plan = {'property': PROP, 'profile': 'clone', 'run_index': i, 'init': init, 'dest': dest, 'timeout_s': 90, 'destroy_dest_first': rng.chance(0.5)}
    if dest == 'other':
        if rng.chance(0.4):
            # a destination that already holds part of the source's content: the same model with shapes and (leaf) bone nodes removed
            import copy
            di = copy.deepcopy(init)
            di['edits'] = [{'op': rng.choice(['DeleteShape', 'DeleteNode', 'DeleteNode', 'DeleteSkinning']), 'shape': rng.below(8), 'salt': rng.below(1 << 30)}
                           for _ in range(rng.range(1, 5))]
            plan['dest_init'] = di
        else:
            plan['dest_init'] = some_init()
    steps = []
    for _ in range(rng.range(1, 4)):
        steps.append({'op': 'Clone', 'shape': rng.below(8)})
        if rng.chance(0.2):
            steps.append({'op': 'DeleteClone'})                 # the clone is removed again; cloning goes on
            steps.append({'op': 'Clone', 'shape': rng.below(8)})
        if rng.chance(0.3):
            steps.append({'op': 'RestartDst', 'raw': rng.chance(0.7)})
        if rng.chance(0.2):
            steps.append({'op': 'UseDst'})
    if dest != 'same' and rng.chance(0.6):
        steps.append({'op': 'DestroySrc'})
    if rng.chance(0.7):
        steps.append({'op': 'RestartDst', 'raw': rng.chance(0.7)})
    steps.append({'op': 'UseDst'})
    plan['steps'] = steps
    return plan


def sweep_plan(seed, ver, t, k):
    """every registered block type, populated, hangs below the shape that is cloned (type-fitting, via carrier blocks)"""
    rng = Rng(seed, PROP, 'sweep', ver, t, k)
    sh = hist.shape_spec(rng, ver, 'quick', name='s0')
    if sh['nv'] > 60:
        sh['nv'], sh['nt'] = rng.range(4, 40), rng.range(2, 40)
    init = {'settle': True, 'builder': {'version': ver, 'salt': rng.below(1 << 30), 'nodes': rng.below(3), 'shapes': [sh]},
            'attach': [{'type': t, 'seed': rng.below(1 << 20), 'shape': 0}]}
    if rng.chance(0.3):
        init['attach'].append({'type_index': rng.below(100000), 'seed': rng.below(1 << 20), 'shape': 0, 'required': False})
    dest = rng.weighted([('same', 2), ('fresh', 5)])
    steps = [{'op': 'Clone', 'shape': 0}]
    if rng.chance(0.5):
        steps.append({'op': 'RestartDst', 'raw': rng.chance(0.7)})
    if dest != 'same' and rng.chance(0.5):
        steps.append({'op': 'DestroySrc'})
    steps.append({'op': 'UseDst'})
    return {'property': PROP, 'profile': 'clone', 'init': init, 'dest': dest, 'timeout_s': 60, 'destroy_dest_first': rng.chance(0.5), 'steps': steps}


def jobs(tier, seed, pool):
    out = [{'plan': gen_plan(seed, i, tier), 'meta': {'kind': 'history'}} for i in range(RUNS[tier])]
    for ver in ['OB', 'FO3', 'SK', 'SSE', 'FO4', 'FO76']:
        for t in synth.block_types():
            if t in synth.BUILDER_ONLY:
                continue
            for k in range(1 if tier == 'quick' else 6):
                out.append({'plan': sweep_plan(seed, ver, t, k), 'meta': {'kind': 'sweep', 'cell': (ver, t)}})
    return out


account = hist.account
samples = hist.samples


def extra_coverage(jobs_, results):
    inter = set()
    for a in results:
        if a and isinstance(a.get('info'), dict) and a['info'].get('interleaving'):
            inter.add(a['info']['interleaving'])
    return {'interleavings': len(inter), 'interleaving_measure': 'distinct sequences of clone / restart / destroy-source / use-destination events'}
