"""C01 — load/save round trip is exact and reaches a byte-level fixed point (restart cycles)."""
from .prng import Rng
from . import inputs, hist, synth, edits

PROP = 'C01'
LEVEL = 'exploration'
WALL_CAP = {'quick': 300, 'thorough': 3000}
RULE = ('one run = one stored file F0 driven through restart cycles: raw F1=save(load(F0)), load(F1) must succeed, F2=save(load(F1)) must equal F1 byte '
        'for byte; default G1,G2,G3 with G3==G2. F0 ranges over the 52 sample files, files synthesised with populated fields for every registered block '
        'type x 13 version configurations x seeds (typed generator driven by the NIFLY_VERIF hooks; references wired type-correctly, acyclic), and API-built '
        'models for the BSTriShape family (every attribute combination x SSE/FO4/FO76), and all three kinds after 1..4 block-graph edits (subtree unlinked from its node = loose chain, blocks moved to another on-disk order, rebuilt reference list, nodes / shapes added, cloned, removed). non-trivial = F0 was accepted by the loader and the cycles ran; '
        'distinct = distinct initial-state specs.')
ASSUMPTIONS = ['comparison starts at F1 (the library\'s own normal form), never at F0', 'a synthesised file the loader rejects (or faults on while it is generated) is a rejected input, counted, not a violation',
               'BSTriShape-family instances come from API builders: independently drawn vertex descriptors violate cross-field constraints that no writer produces',
               'the schedule/fault dimension is degenerate for this property (restart is the only event); reach comes from the typed generator']
GRAPH_OPS_SYNTH = ['UnlinkFromNode', 'UnlinkFromNode', 'MoveBlocks', 'AddLooseBlock', 'RebuildRefArray', 'AddNode', 'AddExtraData', 'SetNodeName']
GRAPH_OPS = GRAPH_OPS_SYNTH + ['DeleteShape', 'DeleteNode', 'CloneShape', 'SetParentNode', 'DeleteShader', 'DeleteSkinning', 'AlphaProperty', 'ReplaceWithClone']
EXPECTED_PROBES = ['synth_accepted', 'default_needed_second_round', 'edit_set_texture_path_from_grammar', 'edit_unlink_from_node', 'edit_move_block_to_front', 'edit_rebuild_ref_array']


def builder_inits(rng, n, tier):
    out = []
    for i in range(n):
        ver = rng.choice(['SSE', 'FO4', 'FO76', 'SSE', 'FO4', 'SK', 'OB', 'FO3'])
        nshapes = rng.weighted([(1, 5), (2, 2)])
        out.append({'settle': True, 'builder': {'version': ver, 'salt': rng.below(1 << 30), 'nodes': rng.below(3),
                                                'shapes': [hist.shape_spec(rng, ver, tier, name='s%d' % k) for k in range(nshapes)]}})
    return out


def jobs(tier, seed, pool):
    out = []
    for kind in ('in', 'exp'):
        for n, _ in inputs.sample_names(kind):
            out.append({'plan': {'property': PROP, 'profile': 'roundtrip', 'init': {'sample': n}, 'timeout_s': 40}, 'meta': {'kind': 'sample'}})
    nseeds = 1 if tier == 'quick' else 12
    for v, t, s in synth.population(nseeds, seed0=seed):
        out.append({'plan': {'property': PROP, 'profile': 'roundtrip', 'init': synth.synth_init(v, t, s, k=3), 'timeout_s': 8},
                    'meta': {'kind': 'synth', 'cell': (v, t)}})
    # texture paths from a grammar (prefixes, nested "textures"/"data" folders, separators, blanks) set on samples and built models
    tex_names = [n for n, sz in inputs.sample_names('in') if sz < 70000]
    for i in range(400 if tier == 'quick' else 8000):
        r = Rng(seed, PROP, 'tex', i)
        if r.chance(0.6):
            init = {'sample': r.choice(tex_names)}
        else:
            ver = r.choice(['OB', 'FO3', 'SK', 'SSE', 'FO4', 'FO76'])
            init = {'builder': {'version': ver, 'salt': r.below(1 << 30), 'nodes': r.below(2), 'shapes': [hist.shape_spec(r, ver, 'quick', name='s0')]}}
            if init['builder']['shapes'][0]['nv'] > 300:
                init['builder']['shapes'][0].update({'nv': 12, 'nt': 10})
        init['edits'] = [{'op': 'SetTexturePath', 'shape': r.below(4), 'salt': r.below(1 << 30)} for _ in range(r.range(1, 3))]
        out.append({'plan': {'property': PROP, 'profile': 'roundtrip', 'init': init, 'timeout_s': 40}, 'meta': {'kind': 'texture-paths'}})
    # stored files as other tools leave them: subtrees unlinked from their node (loose chains), blocks in another order, rebuilt
    # reference lists, added / removed nodes and shapes
    types = [t for t in synth.block_types() if t not in synth.BUILDER_ONLY]
    for i in range(900 if tier == 'quick' else 12000):
        r = Rng(seed, PROP, 'graph', i)
        k = r.below(10)
        if k < 6:
            init = {'sample': r.choice(tex_names)}
        elif k < 8:
            ver = r.choice(['OB', 'OB', 'FO3', 'SK', 'SSE', 'FO4', 'FO76'])
            sh = hist.shape_spec(r, ver, 'quick', name='s0')
            if sh['nv'] > 300:
                sh.update({'nv': 12, 'nt': 10})
            if ver in ('OB', 'FO3') and r.chance(0.7):
                sh['legacy_texturing'] = True   # texturing property with base / glow / decal textures: references in version-dependent slots
            init = {'builder': {'version': ver, 'salt': r.below(1 << 30), 'nodes': r.below(4), 'shapes': [sh]}}
            hist.maybe_attach(r, init, 0.5)
        else:
            init = synth.synth_init(r.choice(synth.VERSIONS), r.choice(types), r.below(1 << 20), k=3)
        ops = GRAPH_OPS if 'synth' not in init else GRAPH_OPS_SYNTH
        init['edits'] = [edits.edit_step(r, 'quick', allow=ops) for _ in range(r.range(1, 5))]
        out.append({'plan': {'property': PROP, 'profile': 'roundtrip', 'init': init, 'timeout_s': 40}, 'meta': {'kind': 'graph-edits'}})
    rng = Rng(seed, PROP, 'builders')
    for init in builder_inits(rng, 400 if tier == 'quick' else 6000, tier):
        out.append({'plan': {'property': PROP, 'profile': 'roundtrip', 'init': init, 'timeout_s': 8}, 'meta': {'kind': 'builder'}})
    return _with_reuse(out, seed)


def _with_reuse(out, seed):
    """a quarter of the runs keep one NifFile object across the loads of a cycle (F-REUSE)"""
    names = [n for n, _ in inputs.sample_names('in')]
    for i, j in enumerate(out):
        r = Rng(seed, PROP, 'reuse', i)
        if r.chance(0.25):
            j['plan']['reuse_object'] = True
            if r.chance(0.6):
                j['plan']['prior'] = {'sample': r.choice(names)}   # the object loaded and saved another file before
    return out


def account(job, agg):
    return 1, set(s for s in agg['sigs'] if s)


samples = hist.samples


def extra_coverage(jobs_, results):
    cells_total, accepted, rejected = set(), set(), set()
    kinds = {}
    for j, a in zip(jobs_, results):
        if a is None:
            continue
        k = j['meta']['kind']
        kinds[k] = kinds.get(k, 0) + 1
        if k == 'synth':
            c = tuple(j['meta']['cell'])
            cells_total.add(c)
            if a['probes'].get('synth_accepted'):
                accepted.add(c)
            else:
                rejected.add(c)
    return {'inputs_by_kind': kinds,
            'types_versions_covered': {'cells': len(cells_total), 'accepted_at_least_once': len(accepted), 'never_accepted': len(cells_total - accepted),
                                       'never_accepted_examples': sorted('%s/%s' % c for c in (cells_total - accepted))[:40],
                                       'builder_sourced_types': sorted(synth.BUILDER_ONLY)}}
