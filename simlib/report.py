"""Classification of failed runs, known findings, minimisation, replay gate, evidence."""
import copy, json, os, re, time
from . import pool as poolmod

VERIF = poolmod.VERIF
KNOWN = os.path.join(VERIF, 'known_findings.json')


def first_nifly_frame(stderr, kind):
    frames = re.findall(r'#\d+ 0x[0-9a-f]+ in (.+?) (?:/|\()', stderr)
    names = []
    for f in frames:
        fn = f.split('(')[0].strip()
        if ('nifly::' in fn or 'Miniball' in fn) and 'sim::' not in fn and 'nifly_ref::' not in fn:
            names.append(re.sub(r'<.*>', '<>', fn))
        elif 'nifly_ref::' in fn and 'sim::' not in fn:
            names.append(re.sub(r'<.*>', '<>', fn))
    if not names:
        return '?'
    if kind == 'stack-overflow':
        # recursion: the frame on top is arbitrary; take the most frequent function in the cycle
        top = names[:40]
        best = sorted(set(top), key=lambda n: (-top.count(n), n))[0]
        return best
    return names[0]


def classify(res, prop):
    """-> (class string | None, excerpt)"""
    st = res.get('status')
    if st == 'ok':
        return None, ''
    if st == 'viol':
        cls = res.get('class', prop + '/?')
        m = re.match(r'^(C\d+/ubsan:[^:]*:[^:]*:\d+)', cls)
        if m:
            cls = m.group(1)
        return cls, res.get('msg', '')
    if st == 'hang':
        return '%s/hang@%s' % (prop, res.get('stage', '?')), 'no progress within the watchdog limit; stage=%s' % res.get('stage')
    if st == 'crash':
        err = res.get('stderr', '')
        m = re.search(r'ERROR: AddressSanitizer: ([\w-]+)', err)
        if m:
            kind = m.group(1)
            if kind == 'requested':
                kind = 'allocation-size-too-big'
            if kind == 'ABRT':
                t = re.search(r"terminate called after throwing an instance of '([^']+)'", err)
                kind = 'abort:' + (t.group(1) if t else 'abort')
            return '%s/asan:%s@%s' % (prop, kind, first_nifly_frame(err, kind)), err[:3000]
        t = re.search(r"terminate called after throwing an instance of '([^']+)'", err)
        if t:
            return '%s/abort:%s@%s' % (prop, t.group(1), res.get('stage', '?')), err[:3000]
        return '%s/crash:exit%s-sig%s@%s' % (prop, res.get('exit'), res.get('signal'), res.get('stage', '?')), err[:3000]
    return '%s/machinery:%s' % (prop, res.get('msg', st)), json.dumps(res)[:1000]


def load_known():
    try:
        with open(KNOWN) as f:
            return json.load(f).get('findings', [])
    except FileNotFoundError:
        return []


def match_known(known, prop, cls, plan):
    for k in known:
        if k.get('status') != 'open' or k.get('property') != prop:
            continue
        if not re.search(k['class_regex'], cls):
            continue
        if 'input_regex' in k and not re.search(k['input_regex'], json.dumps(plan.get('init', plan.get('inits', '')))):
            continue
        return k
    return None


# ---------------------------------------------------------------------------------------------
def _fails_same(runner, plan, cls, prop):
    res = runner(plan)
    c, _ = classify(res, prop)
    return c == cls, res


def ddmin(items, test):
    """classic ddmin over a list; test(sublist) -> True if still failing"""
    n = 2
    while len(items) >= 2:
        chunk = max(1, len(items) // n)
        subsets = [items[i:i + chunk] for i in range(0, len(items), chunk)]
        reduced = False
        for i in range(len(subsets)):
            comp = [x for j, s in enumerate(subsets) if j != i for x in s]
            if comp and test(comp):
                items = comp
                n = max(n - 1, 2)
                reduced = True
                break
        if not reduced:
            if n >= len(items):
                break
            n = min(len(items), n * 2)
    return items


def minimise(plan, cls, prop, runner, fail_case=None, budget=250):
    """Shrinks a failing plan while the same violation class persists. Returns (plan, reruns)."""
    runs = [0]

    def still(p):
        if runs[0] >= budget:
            return False
        runs[0] += 1
        ok, _ = _fails_same(runner, p, cls, prop)
        return ok

    plan = copy.deepcopy(plan)
    plan.pop('from', None)
    if 'cases' in plan:
        if fail_case is not None and 0 <= fail_case < len(plan['cases']):
            cand = dict(plan, cases=[plan['cases'][fail_case]])
            if still(cand):
                plan = cand
        if len(plan['cases']) > 1:
            plan['cases'] = ddmin(plan['cases'], lambda cs: still(dict(plan, cases=cs)))
        if len(plan['cases']) == 1 and 'patch' in plan['cases'][0] and len(plan['cases'][0]['patch']) > 1:
            c0 = plan['cases'][0]
            c0['patch'] = ddmin(c0['patch'], lambda ps: still(dict(plan, cases=[dict(c0, patch=ps)])))
    if 'steps' in plan and plan['steps']:
        if len(plan['steps']) > 1:
            plan['steps'] = ddmin(plan['steps'], lambda ss: still(dict(plan, steps=ss)))
        elif still(dict(plan, steps=[])):
            plan['steps'] = []
        # shrink integer arguments of the remaining steps (smaller selectors / subsets)
        for si, st in enumerate(plan['steps']):
            for k, v in list(st.items()):
                if isinstance(v, bool) or k in ('slot',):
                    continue
                if isinstance(v, int) and v > 1:
                    for cand in (0, 1, v // 2):
                        if cand >= v:
                            continue
                        st2 = dict(st)
                        st2[k] = cand
                        ss = plan['steps'][:si] + [st2] + plan['steps'][si + 1:]
                        if still(dict(plan, steps=ss)):
                            plan['steps'] = ss
                            st = st2
                            break
    if 'inits' in plan and isinstance(plan['inits'], list) and len(plan['inits']) > 1:
        pass  # slots are addressed by index; dropping one would renumber the others
    return plan, runs[0]


def gate_and_write(plan, cls, prop, excerpt, seed, tag):
    """Replay gate: two fresh processes must reproduce the same class (and the same history hash).
    Returns (replay path | None, reason)."""
    r1 = poolmod.exec_fresh(plan)
    r2 = poolmod.exec_fresh(plan)
    c1, e1 = classify(r1, prop)
    c2, _ = classify(r2, prop)
    if c1 != cls or c2 != cls:
        return None, 'replay gate: fresh-process classes %r / %r differ from %r' % (c1, c2, cls)
    if r1.get('status') == 'viol' and r1.get('hash') != r2.get('hash'):
        return None, 'replay gate: history hash differs between two fresh replays (%s vs %s)' % (r1.get('hash'), r2.get('hash'))
    d = os.path.join(VERIF, 'replays', prop)
    os.makedirs(d, exist_ok=True)
    path = os.path.join(d, '%s_%s.json' % (seed, tag))
    with open(path, 'w') as f:
        json.dump({'property': prop, 'verif_seed': seed, 'plan': plan,
                   'expect': {'class': cls, 'history_hash': r1.get('hash'), 'status': r1.get('status')},
                   'excerpt': (excerpt or e1)[:4000]}, f, indent=1)
    return path, ''


def write_evidence(prop, tier, seed, level, wall, violations, coverage, assumptions):
    d = os.path.join(VERIF, 'evidence')
    os.makedirs(d, exist_ok=True)
    ev = {'property_id': prop, 'tier': tier, 'seed': seed, 'level': level, 'wall_s': round(wall, 2),
          'violations': violations, 'coverage': coverage, 'assumptions': assumptions}
    tmp = os.path.join(d, prop + '.json.tmp')
    with open(tmp, 'w') as f:
        json.dump(ev, f, indent=1, sort_keys=True)
    os.replace(tmp, os.path.join(d, prop + '.json'))
