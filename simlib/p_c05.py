"""C05 — every serialised block or string reference is enumerated by its owner (transfer monitor)."""
from .prng import Rng
from . import inputs, hist, synth

PROP = 'C05'
LEVEL = 'exploration'
WALL_CAP = {'quick': 300, 'thorough': 3000}
RULE = ('one run = one model whose every block is serialised on its own (Put) and read back (factory Load of its payload) under the NIFLY_VERIF hooks: every NiRef / '
        'NiStringRef object that passes through Sync must be reported by GetChildRefs/GetPtrs/GetStringRefs (pointer identity for Put; multiset of index values for Get). '
        'Models: synthesised populated instances of every registered block type x 13 version configurations x seeds (+ helper blocks), the 52 samples, API-built models. '
        'Consequence check: delete a block or permute the blocks, then every serialised reference (located by the hook, not by the enumerators) must still designate the '
        'same block or nothing. non-trivial = at least one reference or string reference was monitored; distinct = distinct initial-state specs.')
ASSUMPTIONS = ['string references are monitored from 20.1.0.3 on (before that they are written inline and there is no index to go stale)',
               'nothing is required of GetChildIndices', 'reach comes from the typed generator; the schedule/fault dimension is degenerate for this property']
EXPECTED_PROBES = ['refs_monitored', 'strings_monitored', 'consequence_delete', 'consequence_reorder']


def jobs(tier, seed, pool):
    out = []
    rng = Rng(seed, PROP, 'plan')

    def add(init, kind, cell=None):
        p = {'property': PROP, 'profile': 'transfer', 'init': init, 'timeout_s': 30}
        if rng.chance(0.6):
            p['consequence'] = {'op': rng.choice(['delete', 'delete', 'reorder']), 'block': rng.below(1000), 'salt': rng.below(1 << 30)}
        out.append({'plan': p, 'meta': {'kind': kind, 'cell': cell}})

    for kind in ('in', 'exp'):
        for n, _ in inputs.sample_names(kind):
            add({'sample': n}, 'sample')
    nseeds = 1 if tier == 'quick' else 24
    for v, t, s in synth.population(nseeds, seed0=seed):
        add(synth.synth_init(v, t, s, k=3, helpers=8), 'synth', (v, t))
    for i in range(300 if tier == 'quick' else 4000):
        r = Rng(seed, PROP, 'b', i)
        ver = r.choice(['OB', 'FO3', 'SK', 'SSE', 'FO4', 'FO76'])
        add({'builder': {'version': ver, 'salt': r.below(1 << 30), 'nodes': r.below(3), 'shapes': [hist.shape_spec(r, ver, 'quick', name='s0')]}}, 'builder')
    return out


account = hist.account
samples = hist.samples


def extra_coverage(jobs_, results):
    cells, ok = set(), set()
    for j, a in zip(jobs_, results):
        if a is None or j['meta']['kind'] != 'synth':
            continue
        c = tuple(j['meta']['cell'])
        cells.add(c)
        if a['probes'].get('synth_accepted'):
            ok.add(c)
    return {'types_versions_covered': {'cells': len(cells), 'accepted_at_least_once': len(ok), 'builder_sourced_types': sorted(synth.BUILDER_ONLY)}}
