"""C02 — saving is repeatable and never alters the in-memory model (save/query/save histories; failed-save twin)."""
from .prng import Rng
from . import inputs, hist, synth, edits

PROP = 'C02'
LEVEL = 'exploration'
WALL_CAP = {'quick': 300, 'thorough': 3000}
RULE = ('one run = one live model (sample, typed-synthesis file per block type x version, or API-built model), optionally edited by 0..6 API steps, then '
        'Q0 save S1 Q1 save S2 Q2 save S3 Q3 with raw or default options (Q = full read-only query battery; getters fill caches). Oracle: S1==S2==S3 '
        '(byte-equal, or equal after replacing every string index by its string), Q0==..==Q3 (raw) / Q1==Q2==Q3 (default). Fault configuration: S1 goes to '
        'a stream that fails after k bytes (k over the block area, block boundaries, just before the size-table back-patch); S2,S3 and Q1..Q3 must equal those '
        'of a fault-free twin of the same plan. non-trivial = model accepted and saved three times; distinct = distinct (initial state, options, edits, fault offset).')
ASSUMPTIONS = ['string-table renumbering between saves is tolerated (canonical comparison via the string-reference hook)',
               'with default options Q0 is not compared with Q1 (sorting, pruning and bounds are the documented effect of those options)',
               'the fault twin is compared ordinal by ordinal (S2 with S2), never with S1',
               'Oblivion models: Q0 is not compared with Q1 (the first save materialises the tangent-space NiBinaryExtraData block, documented in FinalizeData)',
               'string-table and block-size accessors are left out of the digest (storage details normalised by FinalizeData)',
               'getters that change answers by themselves (e.g. GetShapePartitions converts partition strips) are detected by a second query pass before the first save and counted in a probe']
EXPECTED_PROBES = ['write_failure_hit', 'string_renumbering_tolerated']


def jobs(tier, seed, pool):
    out = []
    rng = Rng(seed, PROP, 'plan')
    sample_list = [n for n, _ in inputs.sample_names('in')]

    def add(init, raw, edits_=None, fail_at=None, kind='sample', big=False):
        p = {'property': PROP, 'profile': 'resave', 'init': init, 'raw': raw, 'battery_salt': seed % 1000, 'timeout_s': 60 if big else 20}
        if Rng(seed, PROP, 'save-first', len(out)).chance(0.4):
            p['save_first'] = True
            re_ = Rng(seed, PROP, 'eye', len(out))
            if re_.chance(0.25):
                # (only here: a dynamic shape re-derives its eye data at every save, which the query comparison around the FIRST save would report)
                edits_ = list(edits_ or []) + [{'op': 'SetEyeData', 'shape': re_.below(4), 'salt': re_.below(1 << 30)}, {'op': 'OffsetShape', 'shape': re_.below(4), 'salt': re_.below(1 << 30)}]   # the first save precedes every query: read-only queries between saves must not change what is saved
        if edits_:
            p['edits'] = edits_
        if fail_at is not None:
            p['fail_at'] = fail_at
        out.append({'plan': p, 'meta': {'kind': kind}})

    for n, sz in inputs.sample_names('in') + inputs.sample_names('exp'):
        for raw in (True, False):
            add({'sample': n}, raw, big=True)
    # edited samples
    nedit = 1500 if tier == 'quick' else 10000
    for i in range(nedit):
        r = Rng(seed, PROP, 'edit', i)
        n = r.choice(sample_list)
        sw = edits.swarm_subset(r)
        es = [edits.edit_step(r, tier, allow=sw) for _ in range(r.range(1, 6))]
        add({'sample': n}, r.chance(0.5), es, kind='edited', big=True)
    # fault configuration on samples and builders
    nfault = 1500 if tier == 'quick' else 10000
    small = [n for n, sz in inputs.sample_names('in') if sz < 70000]
    for i in range(nfault):
        r = Rng(seed, PROP, 'fault', i)
        if r.chance(0.7):
            n = r.choice(small)
            import os
            sz = dict(inputs.sample_names('in'))[n]
            init = {'sample': n}
        else:
            ver = r.choice(['OB', 'SK', 'SSE', 'FO4'])
            init = {'settle': True, 'builder': {'version': ver, 'salt': r.below(1 << 30), 'nodes': r.below(3), 'shapes': [hist.shape_spec(r, ver, 'quick', name='s0')]}}
            sz = 3000
        k = r.weighted([(r.below(max(1, sz)), 6), (r.below(400), 2), (sz - 1 - r.below(min(sz, 64)), 2)])
        es = [edits.edit_step(r, tier) for _ in range(r.range(0, 3))] if r.chance(0.4) else None
        add(init, r.chance(0.5), es, fail_at=k, kind='fault', big=True)
    # every block type x version (typed synthesis), raw and default alternating
    nseeds = 1 if tier == 'quick' else 6
    for idx, (v, t, s) in enumerate(synth.population(nseeds, seed0=seed)):
        add(synth.synth_init(v, t, s, k=2), (idx + seed) % 2 == 0, kind='synth')
        # the same cell after block-level edits (rebuilt reference lists, another block order, an unlinked subtree)
        for rep in range(2):
            r = Rng(seed, PROP, 'synth-edit', idx, rep)
            es = [edits.edit_step(r, tier, allow=['RebuildRefArray', 'MoveBlocks', 'UnlinkFromNode', 'AddLooseBlock', 'SetNodeName']) for _ in range(r.range(1, 3))]
            if rep == 0:
                es.insert(0, {'op': 'RebuildRefArray', 'salt': r.below(1 << 30), 'prefer_skin': r.chance(0.5)})
            add(synth.synth_init(v, t, s, k=2), r.chance(0.5), es, kind='synth-edited')
    # builders
    nb = 300 if tier == 'quick' else 5000
    for i in range(nb):
        r = Rng(seed, PROP, 'builder', i)
        ver = r.choice(['OB', 'FO3', 'SK', 'SSE', 'FO4', 'FO76'])
        init = {'settle': r.chance(0.5), 'builder': {'version': ver, 'salt': r.below(1 << 30), 'nodes': r.below(3),
                                                     'shapes': [hist.shape_spec(r, ver, tier, name='s%d' % k) for k in range(r.range(1, 2))]}}
        hist.maybe_attach(r, init, 0.4)
        add(init, r.chance(0.5), kind='builder')
    return out


account = hist.account
samples = hist.samples


def extra_coverage(jobs_, results):
    kinds = {}
    for j, a in zip(jobs_, results):
        if a is not None:
            kinds[j['meta']['kind']] = kinds.get(j['meta']['kind'], 0) + 1
    return {'inputs_by_kind': kinds}
