"""Random NifFile-level edit steps (interpreted by sim/edits.cpp)."""
from . import hist

EDIT_WEIGHTS = [('DeleteVerts', 5), ('AddNode', 3), ('DeleteNode', 1), ('DeleteShape', 1), ('RenameShape', 2), ('SetTexture', 3), ('OffsetShape', 1),
                ('MoveVertex', 2), ('SetNodeTransform', 2), ('SetNodeName', 1), ('AddExtraData', 3), ('AddLooseBlock', 2), ('CloneShape', 3),
                ('AddShape', 2), ('CalcNormals', 1), ('CalcTangents', 1), ('InvertUVs', 1), ('UpdateSkinPartitions', 2), ('DeleteSkinning', 1),
                ('DeleteShader', 1), ('AlphaProperty', 1), ('SetParentNode', 2), ('PrettySort', 1), ('Optimize', 1), ('TrimTexturePaths', 1),
                ('FixBSXFlags', 1), ('FixShaderFlags', 1), ('DeleteUnreferenced', 1), ('OptimizeFor', 1),
                ('ShapeSetTriangles', 3), ('ShapeSetBounds', 2), ('ShapeToggleColors', 1), ('ShapeUpdateBounds', 2), ('SetTexturePath', 1), ('ReplaceWithClone', 2),
                ('MoveBlocks', 2), ('UnlinkFromNode', 2), ('RebuildRefArray', 2), ('SetExportInfo', 1), ('DeleteUnreferencedTyped', 1)]


def edit_step(rng, tier='quick', allow=None, version_hint=None):
    ops = [(o, w) for o, w in EDIT_WEIGHTS if allow is None or o in allow]
    op = rng.weighted(ops)
    st = {'op': op, 'shape': rng.below(8), 'salt': rng.below(1 << 30)}
    if op == 'DeleteVerts':
        st['verts'] = hist.vert_selector(rng)
    if op == 'RebuildRefArray':
        st['prefer_skin'] = rng.chance(0.5)
    if op == 'AddShape':
        spec = hist.shape_spec(rng, version_hint or 'SSE', tier, name='Added%d' % rng.below(1000), allow_kinds=False)
        if spec['nv'] > 400:
            spec['nv'], spec['nt'] = 24, 30
        spec.pop('segments', None)
        st['spec'] = spec
    return st


def swarm_subset(rng, base=None, keep=(6, 14)):
    """Swarm testing: a run draws the subset of edit operations it may use (None = all)."""
    ops = [o for o, _ in EDIT_WEIGHTS if base is None or o in base]
    if rng.chance(0.4):
        return base
    return rng.sample(ops, rng.range(min(keep[0], len(ops)), min(keep[1], len(ops))))
