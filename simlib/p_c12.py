"""C12 — LE<->SE conversion preserves geometry and skinning and yields a valid file."""
from .prng import Rng
from . import hist

PROP = 'C12'
LEVEL = 'exploration'
WALL_CAP = {'quick': 300, 'thorough': 3000}
RUNS = {'quick': 4000, 'thorough': 40000}
LE_SAMPLES = ['in/Optimize_LE_to_SE', 'in/Optimize_Dynamic_LE_to_SE', 'in/Animated_LE', 'exp/Optimize_SE_to_LE', 'exp/Optimize_Dynamic_SE_to_LE']
SE_SAMPLES = ['in/Optimize_SE_to_LE', 'in/Optimize_Dynamic_SE_to_LE', 'in/Skinned_SE', 'in/Skinned_Dynamic_SE', 'in/Static_SE', 'in/Furniture_Col_SE', 'in/MultiBound_SE',
              'in/OrderedNode_SE', 'in/RootNonZero', 'in/Skinned_NoNiSkinDataWeights', 'in/FixBSXFlags_AddExtEmit', 'in/FixShaderFlags_AddEnvMap',
              'exp/Optimize_LE_to_SE', 'exp/Optimize_Dynamic_LE_to_SE']
RULE = ('one run = an LE or SE model (samples of both games; API-built models with 1..4 shapes incl. strips, vertex colours, model-space shaders, sibling name clashes at the root '
        'and below nested nodes, skins with up to 6 influences per vertex) + OptimizeFor(target, option combination; headParts only for dynamic shapes) -> restart -> OptimizeFor(back) '
        '-> restart. Oracle (mesh model captured before each conversion): positions bit-exact, triangle multiset equal, UVs within half precision, colours within 1/255+1/256 '
        '(unless reported as removed), bone list equal, per-vertex weights == four largest source influences renormalised +-2e-3, shader type and parent node preserved, sibling '
        'shape names pairwise distinct, every index valid, partition invariants (C10 monitor), converted file reloads; at the end the geometry is compared with the original. '
        'non-trivial = a conversion ran; distinct = distinct (initial state, option trace).')
ASSUMPTIONS = ['tolerances are those of the code\'s own packing', 'normals and tangents are not compared (model-space shaders drop them by design; tangents are recomputed)',
               'a vertex whose 4th and 5th influence are equal may keep either', 'shapes with empty names are not generated as siblings (RenameDuplicateShapes skips them by design)']
EXPECTED_PROBES = ['converted_to_SE', 'converted_to_LE', 'duplicate_names_renamed', 'partitions_triangulated', 'model_space_normals_removed', 'weights_compared', 'compared_with_original', 'se_model_with_weights_only_per_vertex', 'built_sparse_weight_slots']


def gen_plan(seed, i, tier):
    rng = Rng(seed, PROP, i)
    dyn = False
    if rng.chance(0.45):
        n = rng.choice(LE_SAMPLES + SE_SAMPLES)
        init = {'sample': n}
        dyn = 'Dynamic' in n
    else:
        ver = rng.choice(['SK', 'SSE'])
        nshapes = rng.weighted([(1, 3), (2, 3), (3, 2), (4, 1)])
        shapes = []
        for k in range(nshapes):
            s = hist.shape_spec(rng, ver, 'quick', name=rng.choice(['a', 'a', 'a_1', 'b', 's%d' % k]), allow_kinds=(ver == 'SK'))
            if s.get('kind') not in (None, 'strips'):
                s.pop('kind')
            if s['nv'] > 1500 or s['nv'] < 3:
                s['nv'], s['nt'] = 30, 40
            if s.get('bones') and ver == 'SK':
                s['wpv'] = rng.range(1, 6)
            if ver == 'SK' and s.get('kind') is None and rng.chance(0.08):
                # an LE partition may use any number of bones, an SE partition at most 80: conversion has to split it
                s.update({'bones': rng.range(90, 120), 'nv': rng.range(100, 250), 'wpv': 4, 'partitions': rng.range(2, 3)})
                s['nt'] = 2 * s['nv']
                s.pop('some_unweighted', None)
            if s.get('bones') and ver == 'SSE':
                if rng.chance(0.35):
                    s['no_skindata_weights'] = True
                if rng.chance(0.4):
                    s['sparse_slots'] = True
                    s['wpv'] = rng.range(2, 4)
            if rng.chance(0.2):
                s['msn'] = True
            if rng.chance(0.35):
                s['under_node'] = rng.below(4)
            s.pop('lockednorm', None)
            shapes.append(s)
        init = {'settle': True, 'builder': {'version': ver, 'salt': rng.below(1 << 30), 'nodes': rng.below(5), 'shapes': shapes}}
        hist.maybe_attach(rng, init, 0.25, len(shapes))
        if rng.chance(0.08):
            # the object loaded a file as terrain before the model was built in it, and the model is converted as built (no reload in between)
            init['prior_terrain_load'] = rng.choice(['in/Static_SE', 'in/Animated_LE'])
            init['settle'] = False
            init.pop('attach', None)

    unobserved = rng.chance(0.4)

    def conv():
        return {'op': 'Convert', 'headParts': dyn and rng.chance(0.8), 'removeParallax': rng.chance(0.7), 'calcBounds': rng.chance(0.7),
                'fixBSXFlags': rng.chance(0.7), 'fixShaderFlags': rng.chance(0.7)}

    steps = [conv()]
    if rng.chance(0.8):
        steps.append({'op': 'Restart', 'raw': rng.chance(0.5)})
    if rng.chance(0.7):
        steps.append(conv())
        if rng.chance(0.8):
            steps.append({'op': 'Restart', 'raw': rng.chance(0.5)})
    plan = {'property': PROP, 'profile': 'convert', 'run_index': i, 'init': init, 'steps': steps, 'timeout_s': 90}
    if unobserved:
        plan['unobserved_source'] = True
    return plan


def jobs(tier, seed, pool):
    return [{'plan': gen_plan(seed, i, tier), 'meta': {}} for i in range(RUNS[tier])]


account = hist.account
samples = hist.samples
