"""Worker pool: N `nifsim serve` zygote processes; each plan runs in a child forked by the zygote."""
import json, os, queue, subprocess, threading, time

VERIF = os.path.dirname(os.path.dirname(os.path.abspath(__file__)))
NIFSIM = os.path.join(VERIF, 'build', 'nifsim')


def child_env():
    env = dict(os.environ)
    env.setdefault('NIFLY_REPO', '/repo')
    env['ASAN_SYMBOLIZER_PATH'] = '/usr/bin/llvm-symbolizer'
    env.pop('ASAN_OPTIONS', None)
    env.pop('UBSAN_OPTIONS', None)
    return env


class Worker:
    def __init__(self):
        self.proc = None
        self.start()

    def start(self):
        self.proc = subprocess.Popen([NIFSIM, 'serve'], stdin=subprocess.PIPE, stdout=subprocess.PIPE,
                                     stderr=subprocess.DEVNULL, env=child_env(), bufsize=0)

    def run(self, plan):
        data = (json.dumps(plan, separators=(',', ':')) + '\n').encode()
        for attempt in range(2):
            try:
                self.proc.stdin.write(data)
                line = self.proc.stdout.readline()
                if line:
                    return json.loads(line)
            except (BrokenPipeError, OSError, ValueError):
                pass
            # the zygote itself died: restart once
            try:
                self.proc.kill()
            except Exception:
                pass
            self.start()
        return {'status': 'machinery', 'msg': 'worker died twice'}

    def close(self):
        try:
            self.proc.stdin.close()
            self.proc.wait(timeout=5)
        except Exception:
            try:
                self.proc.kill()
            except Exception:
                pass


class Pool:
    """run_all(jobs, handler): jobs is an iterable of job objects; handler(worker, job) -> result is
    executed on worker threads. Results are returned in job order (deterministic aggregation)."""

    def __init__(self, n=None):
        self.n = n or int(os.environ.get('VERIF_WORKERS', '0')) or min(16, os.cpu_count() or 4)
        self.workers = [Worker() for _ in range(self.n)]

    def map(self, jobs, handler, deadline=None):
        jobs = list(jobs)
        results = [None] * len(jobs)
        q = queue.Queue()
        for i, j in enumerate(jobs):
            q.put((i, j))
        skipped = [0]

        def loop(w):
            while True:
                try:
                    i, j = q.get_nowait()
                except queue.Empty:
                    return
                if deadline and time.time() > deadline:
                    skipped[0] += 1
                    continue
                results[i] = handler(w, j)

        ts = [threading.Thread(target=loop, args=(w,)) for w in self.workers]
        for t in ts:
            t.start()
        for t in ts:
            t.join()
        return results, skipped[0]

    def close(self):
        for w in self.workers:
            w.close()


def exec_fresh(plan, timeout=600):
    """Run one plan in a fresh process (replay gate / replay command)."""
    import tempfile
    with tempfile.NamedTemporaryFile('w', suffix='.json', delete=False, dir='/dev/shm') as f:
        json.dump(plan, f)
        path = f.name
    try:
        out = subprocess.run([NIFSIM, 'exec', path], stdout=subprocess.PIPE, stderr=subprocess.DEVNULL,
                             env=child_env(), timeout=timeout)
        line = out.stdout.decode(errors='replace').strip().split('\n')[-1] if out.stdout else ''
        return json.loads(line) if line else {'status': 'machinery', 'msg': 'no output'}
    except Exception as e:
        return {'status': 'machinery', 'msg': repr(e)}
    finally:
        os.unlink(path)
