"""C09 — deleting vertices keeps a shape and its skin data consistent. Histories against the mesh model."""
from .prng import Rng
from . import inputs, hist

PROP = 'C09'
LEVEL = 'exploration'
WALL_CAP = {'quick': 200, 'thorough': 2400}
RUNS = {'quick': 8000, 'thorough': 60000}
RULE = ('one run = initial model (sample file, or model built through the API: NiTriShape / NiTriStrips / BSTriShape / BSSubIndexTriShape / '
        'BSMeshLODTriShape / BSDynamicTriShape x skinned or not x partitions x segments x LOCKEDNORM) + 1..6 DeleteVertsForShape steps '
        '(single, prefix, suffix, random fraction, alternate, all, all-but-one) with restarts (save, forget, load) in between and at the end; '
        'after every step the shape is compared with the naive deletion model and every index/counter is checked. non-trivial = a deletion '
        'removed some but not all vertices of a shape with triangles; distinct = distinct (initial state, effective step trace) signatures.')
ASSUMPTIONS = ['deleted index lists are sorted, unique and in range (API precondition)',
               'an emptied shape (API returns true) is checked for index validity only; it is not required to survive a restart',
               'after a restart triangle order is compared as a sequence, except SSE skinned shapes (format stores triangles per partition) where the multiset is compared',
               'bone weights are compared exactly against the model right after a deletion; after a restart only their structure is checked (values belong to C12)']
EXPECTED_PROBES = ['deleted_from_strips', 'deleted_from_skinned', 'deleted_with_lockednorm', 'deleted_from_dynamic',
                   'deleted_with_segments', 'deleted_from_meshlod', 'deleted_all', 'shape_emptied']
SAMPLES = None


def gen_plan(seed, i, tier):
    rng = Rng(seed, PROP, i)
    names = [n for n, _ in inputs.sample_names('in')]
    if rng.chance(0.35):
        init = {'sample': rng.choice(names)}
    else:
        ver = rng.choice(['OB', 'FO3', 'SK', 'SSE', 'SSE', 'FO4', 'FO4', 'FO76'])
        nshapes = rng.weighted([(1, 6), (2, 2), (3, 1)])
        init = {'settle': True, 'builder': {'version': ver, 'salt': rng.below(1 << 30), 'nodes': rng.below(3),
                            'shapes': [hist.shape_spec(rng, ver, tier, name='s%d' % k) for k in range(nshapes)]}}
    steps = []
    ndel = rng.range(1, 6)
    for d in range(ndel):
        steps.append({'op': 'DeleteVerts', 'shape': rng.below(8), 'verts': hist.vert_selector(rng)})
        if rng.chance(0.25):
            steps.append({'op': 'Restart', 'save': 'raw', 'dtor': rng.chance(0.8)})
    if steps[-1]['op'] != 'Restart' and rng.chance(0.8):
        steps.append({'op': 'Restart', 'save': 'raw', 'dtor': rng.chance(0.8)})
    return {'property': PROP, 'profile': 'mesh', 'run_index': i, 'init': init, 'steps': steps, 'timeout_s': 60}


def _with_blind(plan, seed, i):
    """a deletion directly followed by a restart is, in a third of the cases, not observed in between"""
    r = Rng(seed, PROP, 'blind', i)
    st = plan['steps']
    for k in range(len(st) - 1):
        if st[k].get('op') == 'DeleteVerts' and st[k + 1].get('op') == 'Restart' and r.chance(0.35):
            st[k]['blind'] = True
    return plan


def _with_faults(plan, seed, i):
    # a quarter of the restarts first lose a save attempt to a failing stream (disk full / EIO after k bytes), then retry
    r = Rng(seed, PROP, 'wfail', i)
    for st in plan['steps']:
        if st.get('op') == 'Restart' and r.chance(0.25):
            st['fail_first'] = r.weighted([(r.below(400), 2), (r.below(20000), 3)])
    return plan


def jobs(tier, seed, pool):
    return [{'plan': _with_blind(_with_faults(gen_plan(seed, i, tier), seed, i), seed, i), 'meta': {}} for i in range(RUNS[tier])]


account = hist.account
samples = hist.samples
