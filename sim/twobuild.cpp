// nifsim — C08: wire format stays compatible with the reference release (mixed-version world: one
// slot runs the working tree, the other the vendored pinned tree; they exchange files).
#include "sim.hpp"
#include "nifparse.hpp"

std::string cur_roundtrip(const std::string& in, int* rc, long* consumed);
std::string ref_roundtrip(const std::string& in, int* rc, long* consumed);
std::string cur_synth(const std::string& specJson);
std::string ref_synth(const std::string& specJson);

namespace sim {

std::string diffWhere(const std::string& a, const std::string& b, std::string* detail);

void profile_twobuild(const json& plan, Ctx& ctx) {
	const json& init = plan["init"];
	std::string F;
	std::string gen = jstr(plan, "gen", "cur");
	setStage("synth:c08-input");
	if (init.contains("sample")) {
		auto it = samples().find(init["sample"].get<std::string>());
		if (it == samples().end()) { ctx.info["rejected_init"] = true; return; }
		F = it->second;
	}
	else if (init.contains("synth")) {
		F = gen == "ref" ? ref_synth(init["synth"].dump()) : cur_synth(init["synth"].dump());
	}
	else {
		NifFile tmp;
		if (!makeInitial(init, tmp, ctx, &F) ) { ctx.info["rejected_init"] = true; return; }
		if (F.empty()) F = saveNif(tmp, SaveSpec()).bytes;
	}
	if (F.empty()) { ctx.info["rejected_init"] = true; ctx.probe("rejected_by_generating_build"); return; }
	ctx.sig.str(init.dump()); ctx.sig.str(gen);
	ctx.hist.str(F);
	ctx.probe(gen == "ref" ? "input_generated_by_reference_build" : "input_generated_by_current_build");
	int rcA = 0, rcB = 0, rc = 0;
	long cA = 0, cB = 0, c = 0;
	// from here on the input counts as accepted: a fault of either build is a violation, not a rejected input
	setStage("c08:cur-reads-input");
	std::string A = cur_roundtrip(F, &rcA, &cA);
	setStage("c08:ref-reads-input");
	std::string B = ref_roundtrip(F, &rcB, &cB);
	if (rcA != 0 && rcB != 0) { ctx.info["rejected_init"] = true; ctx.probe("rejected_by_both_builds"); return; }
	if ((rcA != 0) != (rcB != 0)) ctx.viol("accept-mismatch", std::string("the ") + (rcA ? "current" : "reference") + " build rejects (rc=" + std::to_string(rcA ? rcA : rcB) + ") a file the other build loads");
	ctx.steps += 2;
	// (1) the reference must be self-consistent on this input, otherwise it is no oracle for it
	setStage("skip:c08-ref-self-consistency"); // a fault of the reference build on its own output disqualifies it as an oracle, like inequality
	std::string B2 = ref_roundtrip(B, &rc, &c);
	if (rc != 0 || B2 != B) { ctx.probe("skipped_reference_not_self_consistent"); ctx.info["skipped"] = true; return; }
	// (2) each build consumes the other's output exactly
	setStage("c08:ref-reads-cur");
	std::string RA = ref_roundtrip(A, &rc, &c);
	if (rc != 0) ctx.viol("ref-rejects-cur-output", "the reference build does not load what the current build wrote (rc=" + std::to_string(rc) + ")");
	if (c != long(A.size()) - 8) ctx.viol("ref-consumption", "reading the current build's file, the reference build consumed " + std::to_string(c) + " bytes; blocks end at " + std::to_string(long(A.size()) - 8));
	setStage("c08:cur-reads-ref");
	std::string CB = cur_roundtrip(B, &rc, &c);
	if (rc != 0) ctx.viol("cur-rejects-ref-output", "the current build does not load what the reference build wrote (rc=" + std::to_string(rc) + ")");
	if (c != long(B.size()) - 8) ctx.viol("cur-consumption", "reading the reference build's file, the current build consumed " + std::to_string(c) + " bytes; blocks end at " + std::to_string(long(B.size()) - 8));
	setStage("c08:cur-reads-cur");
	std::string CA = cur_roundtrip(A, &rcA, &cA);
	// (3) same content through one encoder
	setStage("c08:compare");
	if (RA != B2) {
		std::string d;
		std::string w = diffWhere(B2, RA, &d);
		ctx.viol("ref-reads-cur-differently:" + w, "re-encoded by the reference build, the current build's file differs from the reference build's own (" + d + ")");
	}
	if (CB != CA) {
		std::string d;
		std::string w = diffWhere(CA, CB, &d);
		ctx.viol("cur-reads-ref-differently:" + w, "re-encoded by the current build, the reference build's file differs from the current build's own (" + d + ")");
	}
	// (4) "consumes every block exactly": the size a build declares for a block equals the size the other build writes for the
	// same content (the readers themselves skip by what they parse, not by the table, so total consumption alone cannot see a
	// table that is off)
	auto sizeTables = [&](const std::string& written, const std::string& reencoded, const char* cls, const char* who, const char* other) {
		auto pw = nifparse::parse(written), pr = nifparse::parse(reencoded);
		if (!pw.ok || !pr.ok || !pw.hasSizes || !pr.hasSizes || pw.numBlocks != pr.numBlocks) return;
		for (uint32_t i = 0; i < pw.numBlocks; i++)
			if (pw.sizes[i] != pr.sizes[i] && pw.typeOf(i) == pr.typeOf(i))
				ctx.viol(std::string(cls) + ":" + pw.typeOf(i), std::string("block ") + std::to_string(i) + " (" + pw.typeOf(i) + "): the " + who + " build declares " + std::to_string(pw.sizes[i]) + " bytes, the " + other + " build writes " + std::to_string(pr.sizes[i]) + " for the same content");
		ctx.probe("size_tables_compared");
	};
	sizeTables(A, RA, "cur-declared-size", "current", "reference");
	sizeTables(B, CB, "ref-declared-size", "reference", "current");
	ctx.probe(A == B ? "outputs_identical" : "outputs_equal_only_canonically");
	ctx.nontrivial = true;
	ctx.steps += 4;
	setStage("done");
}

} // namespace sim
