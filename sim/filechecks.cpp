// nifsim — profiles whose oracle is the independent file reader or the transfer monitor:
// C03 (unknown block types survive), C05 (serialised references are enumerated), C07 (header tables
// describe the written file).
#include "sim.hpp"
#include "edits.hpp"

namespace sim {

// ---------------------------------------------------------------------------------------------
// C07 write monitor: checks one saved file against the model that wrote it.
void checkWrittenFile(NifFile& nif, const std::string& bytes, const WriteMap& wm, Ctx& ctx, const std::string& where, const std::string& classSuffix) {
	auto p = nifparse::parse(bytes);
	auto fail = [&](const std::string& cls, const std::string& m) { ctx.viol(cls + classSuffix, where + ": " + m); };
	if (!p.ok) fail("file:header-unreadable", "independent reader: " + p.err);
	auto& hdr = nif.GetHeader();
	uint32_t nb = hdr.GetNumBlocks();
	if (p.numBlocks != nb) fail("file:block-count", "header says " + std::to_string(p.numBlocks) + " blocks, the model has " + std::to_string(nb));
	if (p.typeIdx.size() != nb) fail("file:type-index-count", std::to_string(p.typeIdx.size()) + " type indices for " + std::to_string(nb) + " blocks");
	// type table: each name once, each name used
	{
		std::set<std::string> seen;
		for (auto& t : p.types)
			if (!seen.insert(t).second) fail("file:type-table-duplicate", "type name '" + t + "' listed twice");
		std::vector<int> used(p.types.size(), 0);
		for (auto ti : p.typeIdx) used[ti]++;
		for (size_t i = 0; i < used.size(); i++)
			if (!used[i]) fail("file:type-table-unused", "type name '" + p.types[i] + "' is used by no block");
	}
	for (uint32_t i = 0; i < nb; i++) {
		auto obj = hdr.GetBlock<NiObject>(i);
		std::string actual = obj->GetBlockName();
		if (auto unk = dynamic_cast<NiUnknown*>(obj)) { (void) unk; actual = hdr.GetBlockTypeStringById(i); }
		if (p.typeOf(i) != actual) fail("file:type-of-block", "block " + std::to_string(i) + " is a " + actual + " but the header calls it " + p.typeOf(i));
	}
	// walk by the size table (or by independent serialisation where the format has no table) to the footer
	size_t o = p.headerEnd;
	for (uint32_t i = 0; i < nb; i++) {
		size_t own = putBlock(hdr, hdr.GetBlock<NiObject>(i)).size();
		if (p.hasSizes) {
			if (p.sizes[i] != own && !getenv("NIFSIM_SKIP_BLOCKSIZE")) fail("file:block-size", "size table says " + std::to_string(p.sizes[i]) + " bytes for block " + std::to_string(i) + " (" + p.typeOf(i) + "), the block serialises to " + std::to_string(own));
			o += p.sizes[i];
		}
		else o += own;
	}
	static const char foot[8] = {1, 0, 0, 0, 0, 0, 0, 0};
	if (o + 8 != bytes.size()) fail("file:walk-misses-eof", "walking the blocks from the header ends at " + std::to_string(o) + ", the file has " + std::to_string(bytes.size()) + " bytes (footer of 8 expected)");
	if (memcmp(&bytes[o], foot, 8) != 0) fail("file:footer", "no 01 00 00 00 00 00 00 00 footer where the blocks end");
	if (p.hasStrings) {
		uint32_t maxLen = 0;
		std::set<std::string> seen;
		for (auto& s : p.strings) {
			maxLen = std::max<uint32_t>(maxLen, uint32_t(s.size()));
			if (!nif.HasUnknown() && !seen.insert(s).second) fail("file:string-duplicate", "string '" + s + "' is in the table twice");
		}
		if (p.maxStringLen != maxLen) fail("file:max-string-length", "header says " + std::to_string(p.maxStringLen) + ", the longest string has " + std::to_string(maxLen));
		if (p.strings.size() != p.numStrings) fail("file:string-count", "string count");
		for (auto& s : wm.strs) {
			if (s.off < p.headerEnd || s.off + 4 > bytes.size()) continue;
			uint32_t idx;
			memcpy(&idx, &bytes[s.off], 4);
			if (idx != 0xFFFFFFFFu && idx >= p.numStrings) fail("file:string-index-out-of-table", "string index " + std::to_string(idx) + " at offset " + std::to_string(s.off) + " with " + std::to_string(p.numStrings) + " strings");
		}
	}
	// block references written: empty or inside the block list
	for (auto& r : wm.refs) {
		if (r.off < p.headerEnd || r.off + 4 > bytes.size()) continue;
		uint32_t idx;
		memcpy(&idx, &bytes[r.off], 4);
		(void) idx; // out-of-range references of damaged inputs are C15's business; nothing required here
	}
	ctx.probe("files_walked");
}

void profile_writemon(const json& plan, Ctx& ctx) {
	auto nif = std::make_unique<NifFile>();
	setStage("init");
	if (!makeInitial(plan["init"], *nif, ctx)) { ctx.info["rejected_init"] = true; ctx.probe("rejected_input"); return; }
	ctx.sig.str(plan["init"].dump());
	int stepNo = 0;
	auto saveAndCheck = [&](bool raw, const std::string& where, bool pipe = false) {
		WriteMap wm;
		SaveSpec sp;
		sp.raw = raw;
		sp.map = &wm;
		sp.nonSeekable = pipe;
		if (pipe) ctx.fault("F-NOSEEK");
		SaveOut so = saveNif(*nif, sp);
		ctx.hist.str(so.bytes);
		if (so.rc != 0) ctx.viol("file:save-failed", where);
		checkWrittenFile(*nif, so.bytes, wm, ctx, where, pipe ? "@non-seekable-stream" : "");
		ctx.nontrivial = true;
		return so;
	};
	for (auto& st : plan["steps"]) {
		if (g_progress) g_progress->step = stepNo;
		std::string op = jstr(st, "op");
		std::string where = "step " + std::to_string(stepNo) + " " + op;
		setStage(op.c_str());
		ctx.steps++;
		if (op == "Save") { saveAndCheck(jbool(st, "raw", true), where + (jbool(st, "pipe", false) ? " (non-seekable stream)" : ""), jbool(st, "pipe", false)); ctx.sig.tag("save"); ctx.sig.i(jbool(st, "raw", true)); ctx.sig.i(jbool(st, "pipe", false)); }
		else if (op == "Restart") {
			if (st.contains("fail_first")) {
				SaveSpec bad;
				bad.raw = jbool(st, "raw", true);
				bad.failAfter = size_t(ju64(st, "fail_first", 100));
				if (saveNif(*nif, bad).streamFailed) ctx.fault("F-WFAIL");
			}
			SaveOut so = saveAndCheck(jbool(st, "raw", true), where);
			if (jbool(st, "same_object", false)) {
				// the application keeps its NifFile object and loads the file back into it
				if (loadNif(*nif, so.bytes).rc != 0) ctx.viol("file:not-loadable", where + ": the written file does not load (into the object that wrote it)");
				ctx.probe("restart_into_same_object");
			}
			else {
				auto fresh = std::make_unique<NifFile>();
				if (loadNif(*fresh, so.bytes).rc != 0) ctx.viol("file:not-loadable", where + ": the written file does not load");
				nif = std::move(fresh);
			}
			ctx.fault("F-RESTART");
			ctx.sig.tag("restart");
		}
		else if (op == "LoadInto") {
			// object reuse: the next job (another file, possibly of another version) is loaded into the same NifFile object
			std::string bytes;
			if (st.contains("sample")) {
				auto it = samples().find(st["sample"].get<std::string>());
				if (it != samples().end()) bytes = it->second;
			}
			if (bytes.empty() || loadNif(*nif, bytes).rc != 0) { ctx.info["rejected_load_into"] = true; return; }
			ctx.probe("object_reused_for_another_file");
			ctx.sig.tag("loadinto");
			ctx.sig.str(jstr(st, "sample"));
		}
		else if (op == "CreateInto") {
			nif->Create(versionByName(jstr(st, "version", "SSE")));
			ctx.probe("object_reused_for_a_new_model");
			ctx.sig.tag("createinto");
			ctx.sig.str(jstr(st, "version"));
		}
		else if (applyEdit(*nif, st, ctx)) { ctx.sig.tag(op.c_str()); }
		stepNo++;
	}
	setStage("final-save");
	saveAndCheck(jbool(plan, "final_raw", true), "final save");
}

// ---------------------------------------------------------------------------------------------
// C03
static std::string unknownName(const std::string& orig, bool sameLen, int k) {
	std::string n = orig;
	if (sameLen) {
		if (n.empty()) return "X";
		n[0] = n[0] == 'X' ? 'Y' : 'X';
		n[n.size() - 1] = char('0' + k % 10);
		return n;
	}
	return "VerifUnknownBlockType_" + std::to_string(k) + "_" + orig;
}

// replaces the stored type names selected by `sel` with names no factory knows
std::string relabelTypes(const std::string& F, const nifparse::Parsed& p0, const std::set<size_t>& sel, bool sameLen) {
	std::string Fp = F;
	std::vector<size_t> order(sel.begin(), sel.end());
	std::sort(order.rbegin(), order.rend()); // splice from the back so earlier offsets stay valid
	int k = 0;
	auto& reg = allBlockTypes();
	for (auto ti : order) {
		std::string nn = unknownName(p0.types[ti], sameLen, k++);
		while (std::find(reg.begin(), reg.end(), nn) != reg.end()) nn += "_";
		size_t off = p0.typeNameOff[ti];
		uint32_t len = uint32_t(nn.size());
		std::string rep(reinterpret_cast<char*>(&len), 4);
		rep += nn;
		Fp.replace(off, 4 + p0.types[ti].size(), rep);
	}
	return Fp;
}

void profile_unknown(const json& plan, Ctx& ctx) {
	NifFile tmp;
	std::string F;
	setStage("init");
	if (!makeInitial(plan["init"], tmp, ctx, &F)) { ctx.info["rejected_init"] = true; ctx.probe("rejected_input"); return; }
	if (F.empty() || jbool(plan, "resave_first", false)) F = saveNif(tmp, SaveSpec()).bytes;
	auto p0 = nifparse::parse(F);
	if (!p0.ok || !p0.hasSizes || !p0.footerOk) { ctx.info["rejected_init"] = true; ctx.probe("input_without_size_table"); return; }
	ctx.sig.str(plan["init"].dump());
	// F-SKEW: relabel a subset of the stored type names so that the reader has no factory for them
	std::set<size_t> sel;
	size_t nt = p0.types.size();
	if (jbool(plan, "all", false)) for (size_t i = 0; i < nt; i++) sel.insert(i);
	else for (auto& v : plan["relabel"]) sel.insert(size_t(v.get<uint64_t>() % nt));
	bool sameLen = jbool(plan, "same_len", true);
	std::string Fp = relabelTypes(F, p0, sel, sameLen);
	ctx.fault("F-SKEW", (long) sel.size());
	ctx.sig.tag("relabel"); for (auto ti : sel) ctx.sig.i((long long) ti); ctx.sig.i(sameLen);
	auto p1 = nifparse::parse(Fp);
	if (!p1.ok || !p1.footerOk) ctx.viol("harness:relabelled-file-malformed", "internal: spliced file does not parse");
	setStage("load-relabelled");
	auto nif = std::make_unique<NifFile>();
	LoadOut lo = loadNif(*nif, Fp);
	if (lo.rc != 0) ctx.viol("unknown:load-failed", "a file with unknown block types (and a size table) does not load, rc=" + std::to_string(lo.rc));
	if (!nif->HasUnknown()) ctx.viol("unknown:not-flagged", "HasUnknown() is false although type names without a factory are present");
	ctx.probe("unknown_blocks_present");
	if (sel.count(p0.typeIdx[0])) ctx.probe("root_relabelled");
	if (jbool(plan, "queries", false)) { setStage("queries"); ctx.hist.u64(batteryDigest(*nif, ctx, 1)); }
	if (plan.contains("edits")) {
		// edits that are permitted on a model with unknown blocks (renames, texture paths, added nodes / extra data): the
		// string indices that existed in the input must keep denoting their strings
		setStage("edits");
		for (auto& e : plan["edits"])
			if (applyEdit(*nif, e, ctx)) { ctx.sig.str(jstr(e, "op")); ctx.probe("edited_with_unknown_blocks_present"); }
	}
	std::string via = jstr(plan, "via", "");
	if (via == "copy" || via == "assign") {
		// the model travels through a copy before it is saved (the unknown blocks must survive that too)
		setStage("copy");
		auto cp = std::make_unique<NifFile>();
		if (via == "copy") cp = std::make_unique<NifFile>(*nif);
		else *cp = *nif;
		if (jbool(plan, "destroy_original", true)) nif.reset();
		nif = std::move(cp);
		ctx.probe("saved_through_a_copy");
		ctx.sig.str(via);
	}
	bool raw = jbool(plan, "raw", true);
	setStage("save");
	SaveSpec sp;
	sp.raw = raw;
	SaveOut so = saveNif(*nif, sp);
	ctx.hist.str(so.bytes);
	ctx.nontrivial = true;
	auto p2 = nifparse::parse(so.bytes);
	if (!p2.ok) ctx.viol("unknown:output-unreadable", "independent reader: " + p2.err);
	if (!p2.footerOk) ctx.viol("unknown:output-walk-misses-eof", "walking the output by its size table does not land on the footer");
	if (p2.numBlocks != p1.numBlocks) ctx.viol("unknown:block-count-changed", std::to_string(p1.numBlocks) + " blocks in, " + std::to_string(p2.numBlocks) + " out (" + (raw ? "raw" : "default") + " save)");
	for (uint32_t i = 0; i < p1.numBlocks; i++) {
		if (p1.typeOf(i) != p2.typeOf(i)) ctx.viol("unknown:block-order-or-type-changed", "block " + std::to_string(i) + " was " + p1.typeOf(i) + ", is " + p2.typeOf(i));
		bool relabelled = sel.count(p1.typeIdx[i]) > 0;
		if (relabelled) {
			if (p1.sizes[i] != p2.sizes[i]) ctx.viol("unknown:declared-size-changed", "block " + std::to_string(i) + " (" + p1.typeOf(i) + ") declared " + std::to_string(p1.sizes[i]) + " bytes, now " + std::to_string(p2.sizes[i]));
			if (nifparse::payload(Fp, p1, i) != nifparse::payload(so.bytes, p2, i)) ctx.viol("unknown:payload-changed", "payload of unknown block " + std::to_string(i) + " (" + p1.typeOf(i) + ") is not byte-identical");
		}
	}
	if (p1.hasStrings) {
		if (p2.strings.size() < p1.strings.size()) ctx.viol("unknown:string-table-shrunk", std::to_string(p1.strings.size()) + " strings in, " + std::to_string(p2.strings.size()) + " out");
		for (size_t i = 0; i < p1.strings.size(); i++)
			if (p1.strings[i] != p2.strings[i]) ctx.viol("unknown:string-index-renumbered", "string index " + std::to_string(i) + " denoted '" + p1.strings[i] + "', now '" + p2.strings[i] + "'");
	}
	setStage("reload");
	NifFile m;
	if (loadNif(m, so.bytes).rc != 0) ctx.viol("unknown:output-not-loadable", "the saved file does not load");
	ctx.fault("F-RESTART");
	ctx.steps += 2;
}

// ---------------------------------------------------------------------------------------------
// C05 transfer monitor
struct ReadOffsHook {
	SimIBuf* ib;
	std::vector<size_t> refOffs, strOffs;
};
static void rh_ref(void* c, int mode, NiRef*, const char*) { auto h = static_cast<ReadOffsHook*>(c); if (mode == 0) h->refOffs.push_back(h->ib->consumed()); }
static void rh_str(void* c, int mode, NiStringRef*) { auto h = static_cast<ReadOffsHook*>(c); if (mode == 0) h->strOffs.push_back(h->ib->consumed()); }

void profile_transfer(const json& plan, Ctx& ctx) {
	auto nif = std::make_unique<NifFile>();
	setStage("init");
	if (!makeInitial(plan["init"], *nif, ctx)) { ctx.info["rejected_init"] = true; ctx.probe("rejected_input"); return; }
	ctx.sig.str(plan["init"].dump());
	auto& hdr = nif->GetHeader();
	bool stringsIndexed = hdr.GetVersion().File() >= V20_1_0_3;
	uint32_t nb = hdr.GetNumBlocks();
	long refsSeen = 0, strsSeen = 0;
	for (uint32_t i = 0; i < nb; i++) {
		auto obj = hdr.GetBlock<NiObject>(i);
		if (dynamic_cast<NiUnknown*>(obj)) continue;
		std::string tn = obj->GetBlockName();
		setStage("put");
		WriteMap wm;
		std::string payload = putBlock(hdr, obj, &wm);
		std::set<NiRef*> en;
		obj->GetChildRefs(en);
		std::set<NiRef*> ptrs;
		obj->GetPtrs(ptrs);
		en.insert(ptrs.begin(), ptrs.end());
		std::vector<NiStringRef*> es;
		obj->GetStringRefs(es);
		std::set<NiStringRef*> esSet(es.begin(), es.end());
		size_t k = 0;
		for (auto& r : wm.refs) {
			refsSeen++;
			if (!en.count(r.ref))
				ctx.viol("put:reference-not-enumerated:" + tn, "block " + std::to_string(i) + " (" + tn + ") writes a reference to " + refTargetType(r.pretty) + " (value " + std::to_string(int(r.ref->index)) + ", " + std::to_string(k) + "-th reference it serialises) that neither GetChildRefs nor GetPtrs reports");
			k++;
		}
		if (stringsIndexed)
			for (auto& s : wm.strs) {
				strsSeen++;
				if (!esSet.count(s.ref)) ctx.viol("put:string-not-enumerated:" + tn, "block " + std::to_string(i) + " (" + tn + ") writes a string reference ('" + s.ref->get() + "') that GetStringRefs does not report");
			}
		// Get side: read the payload back through the factory and compare index multisets
		setStage("get");
		auto fac = NiFactoryRegister::Get().GetFactoryByName(tn);
		if (!fac) continue;
		SimIBuf ib(payload);
		std::istream is(&ib);
		NiIStream nis(&is, &hdr);
		ReadOffsHook rh{&ib, {}, {}};
		verif::Hooks hooks;
		hooks.ctx = &rh;
		hooks.blockref = rh_ref;
		hooks.strref = rh_str;
		auto prev = verif::hooks;
		verif::hooks = &hooks;
		auto again = fac->Load(nis);
		verif::hooks = prev;
		std::multiset<uint32_t> readIdx, enumIdx;
		for (auto o : rh.refOffs)
			if (o + 4 <= payload.size()) { uint32_t v; memcpy(&v, &payload[o], 4); readIdx.insert(v); }
		std::set<NiRef*> en2;
		again->GetChildRefs(en2);
		std::set<NiRef*> p2;
		again->GetPtrs(p2);
		en2.insert(p2.begin(), p2.end());
		for (auto r : en2) enumIdx.insert(r->index);
		for (auto v : readIdx)
			if (readIdx.count(v) > enumIdx.count(v)) ctx.viol("get:reference-not-enumerated:" + tn, "block " + std::to_string(i) + " (" + tn + ") reads reference value " + std::to_string(int(v)) + " " + std::to_string(readIdx.count(v)) + " time(s) but its enumerators report it " + std::to_string(enumIdx.count(v)) + " time(s)");
		if (stringsIndexed) {
			std::multiset<uint32_t> rs, esn;
			for (auto o : rh.strOffs)
				if (o + 4 <= payload.size()) { uint32_t v; memcpy(&v, &payload[o], 4); rs.insert(v); }
			std::vector<NiStringRef*> es2;
			again->GetStringRefs(es2);
			for (auto s : es2) esn.insert(s->GetIndex());
			for (auto v : rs)
				if (rs.count(v) > esn.count(v)) ctx.viol("get:string-not-enumerated:" + tn, "block " + std::to_string(i) + " (" + tn + ") reads string index " + std::to_string(int(v)) + " that GetStringRefs does not report");
		}
		if (ib.consumed() != payload.size()) ctx.note("Get of " + tn + " consumed " + std::to_string(ib.consumed()) + " of " + std::to_string(payload.size()) + " bytes");
		ctx.steps++;
	}
	ctx.probe("refs_monitored", refsSeen);
	ctx.probe("strings_monitored", strsSeen);
	if (refsSeen + strsSeen > 0) ctx.nontrivial = true;

	// consequence (history form): delete a block / reorder, save, and look at the *serialised* references
	if (plan.contains("consequence") && nb > 2) {
		setStage("consequence");
		const json& cq = plan["consequence"];
		// expected target tag of every serialised reference, in serialisation order per block
		auto capture = [&](std::map<NiObject*, std::vector<NiObject*>>& out) {
			uint32_t n = hdr.GetNumBlocks();
			for (uint32_t i = 0; i < n; i++) {
				auto obj = hdr.GetBlock<NiObject>(i);
				WriteMap wm;
				putBlock(hdr, obj, &wm);
				std::vector<NiObject*> t;
				for (auto& r : wm.refs) t.push_back(r.ref->IsEmpty() ? nullptr : hdr.GetBlock<NiObject>(r.ref->index));
				out[obj] = t;
			}
		};
		std::map<NiObject*, std::vector<NiObject*>> before, after;
		capture(before);
		std::string what = jstr(cq, "op", "delete");
		NiObject* deleted = nullptr;
		if (what == "delete") {
			uint32_t j = 1 + uint32_t(ju64(cq, "block", 1) % (nb - 1));
			deleted = hdr.GetBlock<NiObject>(j);
			if (dynamic_cast<NiGeometryData*>(deleted)) deleted = nullptr; // cache hazard inside the same model, not C05's subject
			else hdr.DeleteBlock(j);
			ctx.probe("consequence_delete");
		}
		else {
			std::vector<uint32_t> order(nb);
			for (uint32_t i = 0; i < nb; i++) order[i] = i;
			Rng r(ju64(cq, "salt", 1));
			for (uint32_t i = nb - 1; i > 1; i--) std::swap(order[i], order[1 + r.below(i)]);
			hdr.SetBlockOrder(order);
			ctx.probe("consequence_reorder");
		}
		capture(after);
		for (auto& kv : after) {
			auto it = before.find(kv.first);
			if (it == before.end()) continue;
			auto& b = it->second;
			auto& a = kv.second;
			std::string tn = kv.first->GetBlockName();
			if (getenv("NIFSIM_DEBUG")) {
				fprintf(stderr, "%s deleted=%p\n  before:", tn.c_str(), (void*) deleted);
				for (auto x : b) fprintf(stderr, " %p", (void*) x);
				fprintf(stderr, "\n  after: ");
				for (auto x : a) fprintf(stderr, " %p", (void*) x);
				fprintf(stderr, "\n");
			}
			// a must equal b with every reference to the deleted block either written as empty or dropped
			// (arrays that do not keep empty references): dynamic programme over both sequences
			size_t nbq = b.size(), naq = a.size();
			std::vector<std::vector<char>> ok(nbq + 1, std::vector<char>(naq + 1, 0));
			ok[nbq][naq] = 1;
			for (size_t bi = nbq; bi-- > 0;)
				for (size_t ai = naq + 1; ai-- > 0;) {
					bool isDel = deleted && b[bi] == deleted;
					char r = 0;
					if (isDel) {
						if (ok[bi + 1][ai]) r = 1;                                      // dropped
						if (ai < naq && a[ai] == nullptr && ok[bi + 1][ai + 1]) r = 1;   // written as empty
					}
					else if (ai < naq && a[ai] == b[bi] && ok[bi + 1][ai + 1]) r = 1;
					ok[bi][ai] = r;
				}
			if (!ok[0][0]) {
				std::string bs, as;
				for (auto x : b) bs += x == nullptr ? "- " : (deleted && x == deleted) ? "DELETED " : std::string(x->GetBlockName()) + " ";
				for (auto x : a) as += x == nullptr ? "- " : std::string(x->GetBlockName()) + " ";
				ctx.viol("consequence:stale-reference:" + tn, "after " + what + ", the serialised references of a " + tn + " designate [" + as + "] but were [" + bs + "]");
			}
		}
	}
	setStage("dtor");
}

} // namespace sim
