#include "sim.hpp"
namespace sim {
bool synthInitial(const json&, NifFile&, Ctx&) { return false; }
}
