// nifsim — typed synthesis of populated blocks of every registered type (DESIGN 4.2).
// The library's own Get() is run against a generating stream; hooks H1-H3 say what is being read.
#include "sim.hpp"
#include <functional>
#include <cfloat>

namespace sim {

static const std::pair<const char*, const char*> kHierarchy[] = {
#include "hierarchy.inc"
};

static std::string classOfBlockType(const std::string& t) {
	std::string c;
	for (size_t i = 0; i < t.size(); i++)
		if (t[i] != ':') c.push_back(t[i]);
	return c;
}
static const std::map<std::string, std::string>& baseMap() {
	static std::map<std::string, std::string> m = [] {
		std::map<std::string, std::string> r;
		for (auto& p : kHierarchy) r[p.first] = p.second;
		return r;
	}();
	return m;
}
bool classDerivesFrom(const std::string& cls, const std::string& base) {
	if (base == "NiObject" || base.empty()) return true;
	std::string c = cls;
	for (int guard = 0; guard < 40; guard++) {
		if (c == base) return true;
		auto it = baseMap().find(c);
		if (it == baseMap().end()) return false;
		c = it->second;
	}
	return false;
}

struct GenBuf : std::streambuf {
	static inline bool tame = false; // slot discovery (attachBelowShape) only needs the shape of a block: no large values

	Rng rng;
	uint32_t nStrings = 4;
	bool oldStrings = false; // < 20.1.0.3: string refs are inline
	bool havePending = false;
	int pKind = 0;
	size_t pSize = 0;
	std::string pType;
	bool pendingRef = false, pendingStr = false;
	uint64_t lastInt = ~0ull;
	size_t produced = 0;
	char one = 0;
	int lineLeft = 0;
	// one 16-bit word per instance (the k-th one read, k drawn per instance) gets its top nibble populated in half of the
	// instances: flag words keep fields up there (NBT method of the geometry data flags); spread thinly over all words the
	// one that matters would hardly ever be hit, and large counts would dominate the cost
	int nibbleAt = -1, shortsSeen = 0;
	explicit GenBuf(uint64_t seed) : rng(seed) {
		Rng pick(seed * 2862933555777941757ull + 3037000493ull);
		if (pick.chance(0.6)) nibbleAt = int(pick.chance(0.6) ? pick.below(3) : pick.below(8));
		nibbleValue = 1 + pick.below(15);
	}
	uint32_t nibbleValue = 0;

	float genFloat() {
		switch (rng.below(12)) {
			case 0: return 0.0f;
			case 1: return 1.0f;
			case 2: return -1.0f;
			case 3: return 0.5f;
			case 4: return FLT_MAX;
			case 5: return float(rng.below(64)) / 8.0f;
			default: return float(int(rng.below(2001)) - 1000) / 100.0f;
		}
	}
	uint32_t smallCount() {
		uint32_t r = rng.below(100);
		if (r < 70) return rng.below(5);
		if (r < 95) return 5 + rng.below(16);
		return 21 + rng.below(40);
	}
	void gen(char* p, size_t n) {
		produced += n;
		if (n == 0) { havePending = false; return; }
		if (havePending && pSize == n) {
			havePending = false;
			if (pendingRef && n == 4) {
				pendingRef = false;
				uint32_t v = 0xFFFFFFFFu; // wired afterwards
				memcpy(p, &v, 4);
				lastInt = ~0ull;
				return;
			}
			if (pendingStr && n == 4) {
				pendingStr = false;
				uint32_t v;
				if (oldStrings) v = rng.below(9); // inline length, characters follow as a raw read
				else v = rng.chance(0.25) ? 0xFFFFFFFFu : rng.below(nStrings);
				memcpy(p, &v, 4);
				lastInt = v;
				return;
			}
			switch (pKind) {
				case verif::K_BOOL: p[0] = char(rng.below(2)); lastInt = ~0ull; return;
				case verif::K_INT:
				case verif::K_ENUM: {
					uint64_t v;
					if (n == 8) {
						uint64_t flags = rng.next() & 0x7FF;
						v = (flags << 44) | (uint64_t(rng.below(7)) << 8) | rng.below(16);
					}
					else if (n == 1 && rng.chance(0.05)) v = rng.below(256);
					else if (pKind == verif::K_ENUM && rng.chance(0.7)) v = rng.below(8); // enumerators select branches: spread over the small values
					else v = smallCount();
					// flag words keep fields in their upper bits (NBT method in the top nibble of the 16-bit geometry data flags,
					// shader flags): now and then the top nibble is populated as well
					if (tame) {}
					else if (n == 2 && shortsSeen++ == nibbleAt) { v |= uint64_t(nibbleValue) << 12; if (const char* dg = getenv("NIFSIM_DEBUG_GEN")) { FILE* f = fopen(dg, "a"); if (f) { fprintf(f, "nibble word #%d = %llx\n", nibbleAt, (unsigned long long) v); fclose(f); } } }
					else if (n == 2 && rng.chance(0.005)) v |= uint64_t(rng.below(16)) << 12;
					else if (n == 4 && rng.chance(0.004)) v |= uint64_t(rng.below(16)) << 28;
					// a block that has grown beyond a megabyte stops growing (a large count was drawn): further counts are zero
					if (produced > (1u << 20)) v = 0;
					memcpy(p, &v, n);
					lastInt = v;
					return;
				}
				case verif::K_FLOAT: {
					if (n == 4) { float f = genFloat(); memcpy(p, &f, 4); }
					else { double d = genFloat(); memcpy(p, &d, std::min<size_t>(n, 8)); }
					lastInt = ~0ull;
					return;
				}
				default: {
					lastInt = ~0ull;
					if (pType.find("Triangle") != std::string::npos && n == 6) {
						uint16_t t[3] = {uint16_t(rng.below(6)), uint16_t(rng.below(6)), uint16_t(rng.below(6))};
						memcpy(p, t, 6);
						return;
					}
					size_t i = 0;
					for (; i + 4 <= n; i += 4) { float f = genFloat(); memcpy(p + i, &f, 4); }
					for (; i < n; i++) p[i] = char(rng.below(4));
					return;
				}
			}
		}
		havePending = false;
		// raw reads
		if (lastInt == n && n > 0 && n < 4096 && n != 1 && n != 2 && n != 4 && n != 8) {
			// a length was just read and now exactly that many bytes follow: character data
			for (size_t i = 0; i < n; i++) p[i] = char('a' + rng.below(6));
			lastInt = ~0ull;
			return;
		}
		lastInt = ~0ull;
		if (n <= 4) {
			memset(p, 0, n);
			uint32_t r = rng.below(100);
			p[0] = char(r < 85 ? rng.below(4) : 4 + rng.below(30));
			uint32_t v = 0;
			memcpy(&v, p, n);
			lastInt = v;
			return;
		}
		for (size_t i = 0; i < n; i++) p[i] = (i & 1) ? 0 : char(rng.below(6));
	}
	std::streamsize xsgetn(char* s, std::streamsize n) override {
		gen(s, size_t(n));
		return n;
	}
	int_type underflow() override {
		// byte-wise reads (getline / getstring): a few letters, then a terminator
		if (lineLeft == 0) lineLeft = 1 + int(rng.below(6));
		lineLeft--;
		one = lineLeft == 0 ? ((produced & 1) ? '\n' : '\0') : char('a' + rng.below(6));
		if (lineLeft == 0) one = '\0';
		produced++;
		setg(&one, &one, &one + 1);
		return traits_type::to_int_type(one);
	}
};

struct GenHookCtx {
	GenBuf* gb = nullptr;
	std::vector<std::pair<NiRef*, std::string>> refs; // ref object -> target class
	std::vector<NiStringRef*> strs;
};
static void gh_field(void* c, int mode, int kind, size_t size, const char* type) {
	auto h = static_cast<GenHookCtx*>(c);
	if (mode == 0 && h->gb) { h->gb->havePending = true; h->gb->pKind = kind; h->gb->pSize = size; h->gb->pType = type ? type : ""; }
}
static void gh_ref(void* c, int mode, NiRef* r, const char* pretty) {
	auto h = static_cast<GenHookCtx*>(c);
	if (mode == 0 && h->gb) { h->gb->pendingRef = true; h->refs.push_back({r, refTargetType(pretty)}); }
}
static void gh_str(void* c, int mode, NiStringRef* r) {
	auto h = static_cast<GenHookCtx*>(c);
	if (mode == 0 && h->gb) { h->gb->pendingStr = true; h->strs.push_back(r); }
}

static bool isBuilderOnly(const std::string& t) {
	return t == "BSTriShape" || t == "BSSubIndexTriShape" || t == "BSDynamicTriShape" || t == "BSMeshLODTriShape" || t == "BSGeometry";
}

struct GenBlock {
	std::unique_ptr<NiObject> obj;
	std::string type;
	std::vector<std::pair<NiRef*, std::string>> refs;
	std::vector<NiStringRef*> strs;
};

static GenBlock genOne(NiHeader& hdr, const std::string& type, uint64_t seed, bool populate) {
	GenBlock g;
	g.type = type;
	auto fac = NiFactoryRegister::Get().GetFactoryByName(type);
	if (!fac) return g;
	if (!populate) { g.obj = fac->Create(); return g; }
	GenBuf gb(seed);
	gb.oldStrings = hdr.GetVersion().File() < V20_1_0_3;
	gb.nStrings = hdr.GetStringCount();
	std::istream is(&gb);
	NiIStream nis(&is, &hdr);
	GenHookCtx hc;
	hc.gb = &gb;
	verif::Hooks hooks;
	hooks.ctx = &hc;
	hooks.field = gh_field;
	hooks.blockref = gh_ref;
	hooks.strref = gh_str;
	auto prev = verif::hooks;
	verif::hooks = &hooks;
	g.obj = fac->Load(nis);
	verif::hooks = prev;
	g.refs = std::move(hc.refs);
	g.strs = std::move(hc.strs);
	return g;
}

// spec: {"version":V, "type":T, "k":instances, "seed":S, "helpers":max helper blocks, "attach":bool}
bool synthInitial(const json& spec, NifFile& nif, Ctx& ctx, std::string* fileBytes) {
	setStage("synth:generate");
	NiVersion ver = versionByName(jstr(spec, "version", "SSE"));
	std::string type = jstr(spec, "type", "NiNode");
	uint64_t seed = ju64(spec, "seed", 1);
	int k = std::max(1, jint(spec, "k", 2));
	int maxHelpers = jint(spec, "helpers", 6);
	Rng r(seed * 1000003 + 17);
	NifFile tmp;
	tmp.Create(ver);
	auto& hdr = tmp.GetHeader();
	hdr.AddOrFindStringId("", true);
	hdr.AddOrFindStringId("s1");
	hdr.AddOrFindStringId("s2");
	hdr.AddOrFindStringId("textures\\s3.dds");
	hdr.AddOrFindStringId("Bone01");

	std::vector<GenBlock> blocks;
	{ GenBlock root; root.type = "NiNode"; blocks.push_back(std::move(root)); } // placeholder for block 0 (owned by tmp)
	for (int i = 0; i < k; i++) {
		GenBlock g = genOne(hdr, type, seed * 16 + uint64_t(i) + 1, true);
		if (!g.obj) return false;
		blocks.push_back(std::move(g));
	}
	// helpers: one concrete registered type per wanted target class
	std::vector<std::string> wanted;
	for (size_t b = 1; b < blocks.size(); b++)
		for (auto& rf : blocks[b].refs)
			if (std::find(wanted.begin(), wanted.end(), rf.second) == wanted.end()) wanted.push_back(rf.second);
	auto& all = allBlockTypes();
	int helpers = 0;
	for (auto& w : wanted) {
		if (helpers >= maxHelpers) break;
		std::vector<std::string> cands;
		for (auto& t : all)
			if (classDerivesFrom(classOfBlockType(t), w)) cands.push_back(t);
		if (cands.empty()) continue;
		std::string pick = cands[r.below(uint32_t(cands.size()))];
		for (auto& t : cands)
			if (classOfBlockType(t) == w && r.chance(0.6)) pick = t;
		GenBlock g = genOne(hdr, pick, seed * 977 + uint64_t(helpers) + 101, !isBuilderOnly(pick) && r.chance(0.7));
		if (!g.obj) continue;
		blocks.push_back(std::move(g));
		helpers++;
	}
	setStage("synth:wire");
	// wiring: child refs point forward (no cycles), pointers point backward, types fit
	std::vector<std::string> cls(blocks.size());
	for (size_t b = 0; b < blocks.size(); b++) cls[b] = classOfBlockType(blocks[b].type);
	std::set<uint32_t> usedGeomData;
	for (size_t b = 1; b < blocks.size(); b++) {
		std::set<NiRef*> childSet, ptrSet;
		blocks[b].obj->GetChildRefs(childSet);
		blocks[b].obj->GetPtrs(ptrSet);
		for (auto& rf : blocks[b].refs) {
			bool isPtr = ptrSet.count(rf.first) > 0;
			std::vector<uint32_t> cands;
			if (isPtr) {
				// pointers are back references, not ownership: they may designate any block of a fitting type, also a later one
				for (size_t j = 0; j < blocks.size(); j++) if (j != b && classDerivesFrom(cls[j], rf.second)) cands.push_back(uint32_t(j));
			}
			else { for (size_t j = b + 1; j < blocks.size(); j++) if (classDerivesFrom(cls[j], rf.second)) cands.push_back(uint32_t(j)); }
			// a geometry-data block belongs to one shape (shapes cache a raw pointer to it; sharing one data block between
			// shapes makes DeleteShape of one dangle the other - real, but outside all properties)
			if (!isPtr && classDerivesFrom(rf.second, "NiGeometryData")) {
				std::vector<uint32_t> freeC;
				for (auto c : cands) if (!usedGeomData.count(c)) freeC.push_back(c);
				cands = freeC;
			}
			uint32_t v = 0xFFFFFFFFu;
			if (!cands.empty() && r.chance(0.8)) v = cands[r.below(uint32_t(cands.size()))];
			if (v != 0xFFFFFFFFu && classDerivesFrom(cls[v], "NiGeometryData")) usedGeomData.insert(v);
			else if (r.chance(0.05) && blocks.size() > 2) {
				// a wrong-typed but acyclic target (legal on disk; typed lookups must return null)
				v = isPtr ? r.below(uint32_t(b)) : uint32_t(b + 1 + r.below(uint32_t(blocks.size() - b - 1 ? blocks.size() - b - 1 : 1)));
				if (v >= blocks.size() || classDerivesFrom(cls[v], "NiGeometryData")) v = 0xFFFFFFFFu;
			}
			rf.first->index = v;
		}
		for (auto sr : blocks[b].strs)
			if (hdr.GetVersion().File() >= V20_1_0_3) sr->get() = hdr.GetStringById(sr->GetIndex());
	}
	// move into the model
	std::vector<NiObject*> raw(blocks.size(), nullptr);
	raw[0] = tmp.GetRootNode();
	for (size_t b = 1; b < blocks.size(); b++) {
		raw[b] = blocks[b].obj.get();
		hdr.AddBlock(std::move(blocks[b].obj));
	}
	// attach top-level blocks to the root so that the default save keeps them
	if (jbool(spec, "attach", true)) {
		std::set<uint32_t> referenced;
		for (size_t b = 1; b < raw.size(); b++) {
			std::set<NiRef*> cs;
			raw[b]->GetChildRefs(cs);
			for (auto c : cs) if (!c->IsEmpty()) referenced.insert(c->index);
		}
		auto root = tmp.GetRootNode();
		for (size_t b = 1; b < raw.size(); b++) {
			if (referenced.count(uint32_t(b))) continue;
			if (dynamic_cast<NiAVObject*>(raw[b])) root->childRefs.AddBlockRef(uint32_t(b));
			else if (dynamic_cast<NiExtraData*>(raw[b])) root->extraDataRefs.AddBlockRef(uint32_t(b));
			else if (dynamic_cast<NiProperty*>(raw[b]) && ver.File() < V20_2_0_7) root->propertyRefs.AddBlockRef(uint32_t(b));
		}
	}
	setStage("synth:save");
	SaveOut so = saveNif(tmp, SaveSpec());
	if (so.rc != 0) return false;
	if (fileBytes) *fileBytes = so.bytes;
	setStage("synth:load");
	LoadOut lo = loadNif(nif, so.bytes);
	if (lo.rc != 0) { ctx.probe("synth_rejected_by_load"); return false; }
	ctx.probe("synth_accepted");
	ctx.info["synth_blocks"] = (long) nif.GetHeader().GetNumBlocks();
	setStage("synth:done");
	return true;
}

} // namespace sim

namespace sim {
// One populated block of `type` for the model's version (C06: AddBlock / ReplaceBlock of arbitrary registered types).
// refsOut: the reference objects that were read (i.e. that are serialised in this version) with their target class.
std::unique_ptr<NiObject> synthBlock(NiHeader& hdr, const std::string& type, uint64_t seed, std::vector<std::pair<NiRef*, std::string>>* refsOut) {
	GenBlock g = genOne(hdr, type, seed, !isBuilderOnly(type));
	if (!g.obj) return nullptr;
	if (hdr.GetVersion().File() >= V20_1_0_3)
		for (auto sr : g.strs) {
			if (sr->GetIndex() != NIF_NPOS && sr->GetIndex() >= hdr.GetStringCount()) sr->SetIndex(NIF_NPOS);
			sr->get() = hdr.GetStringById(sr->GetIndex());
		}
	if (refsOut) *refsOut = g.refs;
	return std::move(g.obj);
}
bool classDerivesFromPublic(const std::string& blockType, const std::string& base) { return classDerivesFrom(classOfBlockType(blockType), base); }

// ---------------------------------------------------------------------------------------------
// Type-correct attachment of a populated block of any registered type below a shape (C14 sweep: every block type is
// cloned at least once as part of a shape's subtree). Where neither the shape nor the blocks hanging off it have a
// reference slot for the type, carrier blocks are synthesised (controller -> interpolator -> data, property -> texture, ...).
static const std::vector<std::string>& childSlotTypes(NiHeader& hdr, const std::string& type) {
	static std::map<std::string, std::vector<std::string>> cache;
	auto it = cache.find(type);
	if (it != cache.end()) return it->second;
	std::vector<std::string> out;
	if (!isBuilderOnly(type) && type != "NiUnknown") {
		for (uint64_t sd = 1; sd <= 3; sd++) {
			GenBuf::tame = true;
			GenBlock g = genOne(hdr, type, 7700 + sd, true);
			GenBuf::tame = false;
			if (!g.obj) break;
			std::set<NiRef*> cs;
			g.obj->GetChildRefs(cs);
			for (auto& rf : g.refs)
				if (cs.count(rf.first) && std::find(out.begin(), out.end(), rf.second) == out.end()) out.push_back(rf.second);
		}
	}
	return cache[type] = out;
}

// widePointers: back references of the attached block that fit neither its carrier nor the owner designate any fitting block of
// the file (or one added for the purpose) - a block outside the shape's subtree, which a clone cannot follow: not for C14
bool attachBelowShape(NifFile& nif, NiShape* shape, const std::string& type, uint64_t seed, Ctx& ctx, bool widePointers) {
	auto& hdr = nif.GetHeader();
	if (!shape || isBuilderOnly(type) || type == "NiUnknown") return false;
	// scene-graph objects (nodes, shapes, particle systems) do not hang below a shape
	auto partOfGeometry = [](const std::string& t) {
		// scene-graph objects do not hang below a shape; skin and geometry-data blocks belong to exactly one shape and are tied
		// to it by sizes (vertex counts, bone counts): a second, synthesised one is not a model any writer produces
		static const char* bases[] = {"NiAVObject", "NiSkinInstance", "NiSkinData", "NiSkinPartition", "BSSkinInstance", "BSSkinBoneData", "NiGeometryData", "NiBoneContainer"};
		for (auto b : bases) if (classDerivesFrom(classOfBlockType(t), b)) return true;
		return false;
	};
	if (partOfGeometry(type)) { ctx.probe("attach_skipped_scene_graph_type"); return false; }
	auto& allTypes = allBlockTypes();
	if (std::find(allTypes.begin(), allTypes.end(), type) == allTypes.end()) return false;
	static std::vector<std::string> all;
	if (all.empty())
		for (auto& t : allTypes)
			if (!partOfGeometry(t)) all.push_back(t);
	Rng r(seed * 7919 + 29);
	// owners: the shape and the named blocks hanging off it (shader, alpha property, ...)
	struct RootSlot { std::string decl; std::function<void(uint32_t)> set; uint32_t owner; };
	std::vector<RootSlot> roots;
	std::vector<uint32_t> owners{nif.GetBlockID(shape)};
	{
		std::set<NiRef*> cs;
		shape->GetChildRefs(cs);
		std::vector<uint32_t> ids;
		for (auto c : cs) if (!c->IsEmpty()) ids.push_back(c->index);
		std::sort(ids.begin(), ids.end());
		for (auto id : ids) if (hdr.GetBlock<NiObjectNET>(id)) owners.push_back(id);
	}
	bool props = hdr.GetVersion().Stream() <= 34;
	for (auto oid : owners) {
		auto net = hdr.GetBlock<NiObjectNET>(oid);
		if (!net) continue;
		roots.push_back({"NiTimeController", [&hdr, oid](uint32_t id) {
			auto o = hdr.GetBlock<NiObjectNET>(oid);
			NiBlockRef<NiTimeController>* slot = &o->controllerRef;
			for (int guard = 0; guard < 64 && !slot->IsEmpty(); guard++) {
				auto c = hdr.GetBlock<NiTimeController>(slot->index);
				if (!c) break;
				slot = &c->nextControllerRef;
			}
			slot->index = id;
		}, oid});
		roots.push_back({"NiExtraData", [&hdr, oid](uint32_t id) { hdr.GetBlock<NiObjectNET>(oid)->extraDataRefs.AddBlockRef(id); }, oid});
		if (auto av = hdr.GetBlock<NiAVObject>(oid)) {
			if (av->collisionRef.IsEmpty()) roots.push_back({"NiCollisionObject", [&hdr, oid](uint32_t id) { hdr.GetBlock<NiAVObject>(oid)->collisionRef.index = id; }, oid});
			if (props) roots.push_back({"NiProperty", [&hdr, oid](uint32_t id) { hdr.GetBlock<NiAVObject>(oid)->propertyRefs.AddBlockRef(id); }, oid});
		}
	}
	// breadth-first search over "type C has a child slot that accepts type U"
	std::map<std::string, std::string> parent; // type -> carrier type ("" = fits a root slot)
	std::vector<std::string> queue;
	auto fitsRoot = [&](const std::string& t) {
		for (auto& rs : roots) if (classDerivesFrom(classOfBlockType(t), rs.decl)) return true;
		return false;
	};
	for (auto& t : all)
		if (!isBuilderOnly(t) && t != "NiUnknown" && fitsRoot(t)) { parent[t] = ""; queue.push_back(t); }
	for (size_t qi = 0; qi < queue.size() && !parent.count(type); qi++) {
		std::string c = queue[qi];
		for (auto& d : childSlotTypes(hdr, c))
			for (auto& u : all)
				if (!parent.count(u) && !isBuilderOnly(u) && u != "NiUnknown" && classDerivesFrom(classOfBlockType(u), d)) { parent[u] = c; queue.push_back(u); }
	}
	if (!parent.count(type)) { ctx.probe("attach_no_slot_chain"); return false; }
	std::vector<std::string> chain{type};
	while (!parent[chain.back()].empty() && chain.size() < 8) chain.push_back(parent[chain.back()]);
	std::reverse(chain.begin(), chain.end()); // carrier ... type
	// synthesise the chain back to front
	uint32_t nextId = NIF_NPOS;
	std::string nextType;
	std::vector<uint32_t> ids(chain.size(), NIF_NPOS);
	std::vector<std::vector<std::pair<NiRef*, std::string>>> refsOf(chain.size());
	std::vector<NiObject*> objs(chain.size(), nullptr);
	for (size_t k = chain.size(); k-- > 0;) {
		std::unique_ptr<NiObject> obj;
		std::vector<std::pair<NiRef*, std::string>> refs;
		NiRef* link = nullptr;
		for (uint64_t attempt = 0; attempt < 12 && !obj; attempt++) {
			refs.clear();
			auto o = synthBlock(hdr, chain[k], seed * 131 + k * 17 + attempt, &refs);
			if (!o) break;
			if (nextId == NIF_NPOS) { obj = std::move(o); break; }
			std::set<NiRef*> cs;
			o->GetChildRefs(cs);
			for (auto& rf : refs)
				if (cs.count(rf.first) && classDerivesFrom(classOfBlockType(nextType), rf.second)) { link = rf.first; break; }
			if (link) obj = std::move(o);
		}
		if (!obj) { ctx.probe("attach_carrier_not_synthesised"); return false; }
		// AddBlock (and with it every clone) registers a block under its virtual type name: it has to be the name it was made by
		if (std::string(obj->GetBlockName()) != chain[k]) ctx.info["type_name_mismatch"] = chain[k] + " calls itself " + obj->GetBlockName();
		for (auto& rf : refs) rf.first->index = NIF_NPOS;
		if (link) link->index = nextId;
		objs[k] = obj.get();
		refsOf[k] = refs;
		ids[k] = hdr.AddBlock(std::move(obj));
		nextId = ids[k];
		nextType = chain[k];
	}
	// pointers (back references): the predecessor in the chain, else the owner, when the types fit
	RootSlot* rootSlot = nullptr;
	{
		std::vector<RootSlot*> fit;
		for (auto& rs : roots) if (classDerivesFrom(classOfBlockType(chain[0]), rs.decl)) fit.push_back(&rs);
		if (fit.empty()) return false;
		rootSlot = fit[r.below(uint32_t(fit.size()))];
	}
	for (size_t k = 0; k < chain.size(); k++) {
		// back references = the serialised references that are not child references (whether or not the block enumerates them
		// as pointers: that enumeration is what some properties are about)
		std::set<NiRef*> ps;
		objs[k]->GetChildRefs(ps);
		uint32_t pred = k == 0 ? rootSlot->owner : ids[k - 1];
		for (auto& rf : refsOf[k]) {
			if (ps.count(rf.first)) continue;
			auto po = hdr.GetBlock<NiObject>(pred);
			std::string pc = po ? classOfBlockType(po->GetBlockName()) : "";
			if (classDerivesFrom(pc, rf.second)) rf.first->index = pred;
			else {
				auto oo = hdr.GetBlock<NiObject>(rootSlot->owner);
				if (oo && classDerivesFrom(classOfBlockType(oo->GetBlockName()), rf.second)) rf.first->index = rootSlot->owner;
				else if (widePointers && k + 1 == chain.size()) {
					// the block itself: any block of the file that fits, else a populated block of a fitting type added for the purpose
					std::vector<uint32_t> fit;
					for (uint32_t j = 0; j < hdr.GetNumBlocks(); j++)
						if (j != ids[k]) { auto bo = hdr.GetBlock<NiObject>(j); if (bo && classDerivesFrom(classOfBlockType(bo->GetBlockName()), rf.second)) fit.push_back(j); }
					if (!fit.empty()) rf.first->index = fit[r.below(uint32_t(fit.size()))];
					else {
						std::vector<std::string> cands;
						for (auto& u : all) if (classDerivesFrom(classOfBlockType(u), rf.second)) cands.push_back(u);
						if (!cands.empty()) {
							std::vector<std::pair<NiRef*, std::string>> hrefs;
							auto helper = synthBlock(hdr, cands[r.below(uint32_t(cands.size()))], seed * 17 + 3, &hrefs);
							if (helper) {
								for (auto& hr : hrefs) hr.first->index = NIF_NPOS;
								rf.first->index = hdr.AddBlock(std::move(helper));
								ctx.probe("attach_added_pointer_target");
							}
						}
					}
				}
			}
		}
	}
	// one level of children below the block itself, so that its own references are rebound by a clone as well
	{
		std::set<NiRef*> cs;
		objs.back()->GetChildRefs(cs);
		int added = 0;
		for (auto& rf : refsOf.back()) {
			if (!cs.count(rf.first) || added >= 3 || !r.chance(0.6)) continue;
			std::vector<std::string> cands;
			for (auto& u : all)
				if (!isBuilderOnly(u) && u != "NiUnknown" && classDerivesFrom(classOfBlockType(u), rf.second) && !classDerivesFrom(classOfBlockType(u), "NiAVObject")) cands.push_back(u);
			if (cands.empty()) continue;
			std::vector<std::pair<NiRef*, std::string>> crefs;
			auto child = synthBlock(hdr, cands[r.below(uint32_t(cands.size()))], seed * 31 + uint64_t(added) + 5, &crefs);
			if (!child) continue;
			for (auto& c : crefs) c.first->index = NIF_NPOS;
			rf.first->index = hdr.AddBlock(std::move(child));
			added++;
		}
	}
	rootSlot->set(ids[0]);
	ctx.probe(chain.size() > 1 ? "attached_below_shape_via_carrier" : "attached_below_shape");
	ctx.info["attach_chain"] = (long) chain.size();
	return true;
}
} // namespace sim
