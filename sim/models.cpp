// nifsim — reference models and structural invariants of shapes.
#include "models.hpp"
#include <cmath>

namespace sim {

struct PeekSITS : BSSubIndexTriShape {
	static const BSSITSSegmentation& seg(const BSSubIndexTriShape& s) { return s.*(&PeekSITS::segmentation); }
	static const std::vector<BSGeometrySegmentData>& sse(const BSSubIndexTriShape& s) { return s.*(&PeekSITS::segments); }
};
struct PeekTSD : NiTriShapeData {
	static uint32_t ntp(const NiTriShapeData& d) { return d.*(&PeekTSD::numTrianglePoints); }
	static const std::vector<Triangle>& tris(const NiTriShapeData& d) { return d.*(&PeekTSD::triangles); }
};

// naive definition of strip expansion: consecutive triples, alternating winding, degenerate triples dropped
std::vector<Triangle> expandStrips(const std::vector<std::vector<uint16_t>>& strips) {
	std::vector<Triangle> out;
	for (auto& st : strips)
		for (size_t i = 0; i + 2 < st.size(); i++) {
			uint16_t a = st[i], b = st[i + 1], c = st[i + 2];
			if (a == b || b == c || a == c) continue;
			out.push_back((i % 2 == 0) ? Triangle(a, b, c) : Triangle(a, c, b));
		}
	return out;
}

std::string triStr(const Triangle& t) { return "(" + std::to_string(t.p1) + "," + std::to_string(t.p2) + "," + std::to_string(t.p3) + ")"; }

static bool feq(float a, float b, float tol) {
	if (tol == 0.0f) return memcmp(&a, &b, 4) == 0 || (a == 0.0f && b == 0.0f);
	return std::fabs(a - b) <= tol + 2e-3f * std::max(std::fabs(a), std::fabs(b)) * (tol > 0 ? 1.0f : 0.0f);
}
bool sameV3(const std::vector<Vector3>& a, const std::vector<Vector3>& b, float tol, size_t* at) {
	if (a.size() != b.size()) { if (at) *at = size_t(-1); return false; }
	for (size_t i = 0; i < a.size(); i++)
		if (!feq(a[i].x, b[i].x, tol) || !feq(a[i].y, b[i].y, tol) || !feq(a[i].z, b[i].z, tol)) { if (at) *at = i; return false; }
	return true;
}
bool sameV2(const std::vector<Vector2>& a, const std::vector<Vector2>& b, float tol, size_t* at) {
	if (a.size() != b.size()) { if (at) *at = size_t(-1); return false; }
	for (size_t i = 0; i < a.size(); i++)
		if (!feq(a[i].u, b[i].u, tol) || !feq(a[i].v, b[i].v, tol)) { if (at) *at = i; return false; }
	return true;
}
bool sameC4(const std::vector<Color4>& a, const std::vector<Color4>& b, float tol, size_t* at) {
	if (a.size() != b.size()) { if (at) *at = size_t(-1); return false; }
	for (size_t i = 0; i < a.size(); i++)
		if (!feq(a[i].r, b[i].r, tol) || !feq(a[i].g, b[i].g, tol) || !feq(a[i].b, b[i].b, tol) || !feq(a[i].a, b[i].a, tol)) { if (at) *at = i; return false; }
	return true;
}

NiShape* shapeAt(NifFile& nif, uint64_t sel) {
	auto shapes = nif.GetShapes();
	if (shapes.empty()) return nullptr;
	return shapes[sel % shapes.size()];
}

std::vector<uint16_t> pickVerts(const json& spec, uint16_t nv) {
	std::vector<uint16_t> out;
	if (nv == 0) return out;
	std::string kind = jstr(spec, "kind", "random");
	uint64_t n = ju64(spec, "n", 1);
	if (kind == "single") out.push_back(uint16_t(n % nv));
	else if (kind == "prefix") for (uint32_t i = 0; i < std::min<uint64_t>(std::max<uint64_t>(n, 1), nv); i++) out.push_back(uint16_t(i));
	else if (kind == "suffix") { uint32_t k = uint32_t(std::min<uint64_t>(std::max<uint64_t>(n, 1), nv)); for (uint32_t i = nv - k; i < nv; i++) out.push_back(uint16_t(i)); }
	else if (kind == "all") for (uint32_t i = 0; i < nv; i++) out.push_back(uint16_t(i));
	else if (kind == "alternate") for (uint32_t i = uint32_t(n % 2); i < nv; i += 2) out.push_back(uint16_t(i));
	else if (kind == "allbut") { for (uint32_t i = 0; i < nv; i++) if (i != n % nv) out.push_back(uint16_t(i)); }
	else {
		Rng r(ju64(spec, "salt", 1) * 7 + 3);
		double frac = spec.contains("frac") ? spec["frac"].get<double>() : 0.2;
		for (uint32_t i = 0; i < nv; i++)
			if (r.chance(frac)) out.push_back(uint16_t(i));
		if (out.empty()) out.push_back(uint16_t(r.below(nv)));
	}
	return out;
}

ShapeSnap snapShape(NifFile& nif, NiShape* shape) {
	ShapeSnap s;
	auto& hdr = nif.GetHeader();
	s.type = shape->GetBlockName();
	s.name = shape->name.get();
	s.nv = shape->GetNumVertices();
	s.hasVerts = nif.GetVertsForShape(shape, s.verts);
	s.hasUV = nif.GetUvsForShape(shape, s.uvs);
	if (auto n = nif.GetNormalsForShape(shape)) { s.normals = *n; s.hasN = !n->empty(); }
	s.hasT = nif.GetTangentsForShape(shape, s.tangents);
	s.hasBT = nif.GetBitangentsForShape(shape, s.bitangents);
	s.hasC = nif.GetColorsForShape(shape, s.colors);
	s.hasEye = NifFile::GetEyeDataForShape(shape, s.eye);
	s.triOk = shape->GetTriangles(s.tris);
	if (shape->HasType<NiTriStrips>()) {
		s.isStrips = true;
		if (auto d = shape->DataRef() ? hdr.GetBlock<NiTriStripsData>(shape->DataRef()) : nullptr) s.strips = d->stripsInfo.points;
		s.stripTris = expandStrips(s.strips);
	}
	bool hasSkinRef = shape->SkinInstanceRef() && !shape->SkinInstanceRef()->IsEmpty();
	s.skinned = shape->IsSkinned() && hasSkinRef;
	if (hasSkinRef) {
		nif.GetShapeBoneList(shape, s.bones);
		for (uint32_t b = 0; b < s.bones.size(); b++) {
			std::unordered_map<uint16_t, float> w;
			nif.GetShapeBoneWeights(shape, b, w);
			s.boneWeights.emplace_back(w.begin(), w.end());
		}
	}
	if (auto bs = dynamic_cast<BSTriShape*>(shape)) {
		if (bs->IsSkinned())
			for (auto& vd : bs->vertData) {
				std::vector<std::pair<uint8_t, float>> vw;
				for (int k = 0; k < 4; k++) vw.push_back({vd.weightBones[k], vd.weights[k]});
				s.vertWeights.push_back(vw);
			}
		if (auto dyn = dynamic_cast<BSDynamicTriShape*>(shape)) { s.isDynamic = true; s.dynamicCount = dyn->dynamicData.size(); }
	}
	for (auto& ed : shape->extraDataRefs) {
		auto ie = hdr.GetBlock<NiIntegersExtraData>(ed);
		if (ie && ie->name == "LOCKEDNORM") {
			s.hasLockedNorm = true;
			for (uint32_t i = 0; i < ie->integersData.size(); i++) s.lockedNorm.push_back(ie->integersData[i]);
		}
	}
	s.hasSegs = NifFile::GetShapeSegments(shape, s.segInfo, s.segLabels);
	NiVector<BSDismemberSkinInstance::PartitionInfo> pi;
	s.hasParts = nif.GetShapePartitions(shape, pi, s.partLabels);
	for (auto& p : pi) s.partIDs.push_back(p.partID);
	return s;
}

template<typename T>
static void eraseIdx(std::vector<T>& v, const std::vector<int>& map) {
	if (v.empty()) return;
	std::vector<T> out;
	for (size_t i = 0; i < v.size() && i < map.size(); i++)
		if (map[i] >= 0) out.push_back(v[i]);
	v = std::move(out);
}

ShapeSnap modelDeleteVerts(const ShapeSnap& s0, const std::vector<uint16_t>& del) {
	ShapeSnap s = s0;
	std::vector<int> map(s0.nv, -1);
	{
		size_t di = 0;
		int c = 0;
		for (uint32_t i = 0; i < s0.nv; i++) {
			if (di < del.size() && del[di] == i) di++;
			else map[i] = c++;
		}
		s.nv = uint16_t(c);
	}
	eraseIdx(s.verts, map);
	eraseIdx(s.normals, map);
	eraseIdx(s.tangents, map);
	eraseIdx(s.bitangents, map);
	eraseIdx(s.uvs, map);
	eraseIdx(s.colors, map);
	eraseIdx(s.eye, map);
	eraseIdx(s.vertWeights, map);
	if (!s.isStrips) {
		std::vector<Triangle> t;
		std::vector<int> segl, partl;
		for (size_t i = 0; i < s0.tris.size(); i++) {
			auto& tr = s0.tris[i];
			if (tr.p1 < map.size() && tr.p2 < map.size() && tr.p3 < map.size() && map[tr.p1] >= 0 && map[tr.p2] >= 0 && map[tr.p3] >= 0) {
				t.push_back(Triangle(uint16_t(map[tr.p1]), uint16_t(map[tr.p2]), uint16_t(map[tr.p3])));
				if (i < s0.segLabels.size()) segl.push_back(s0.segLabels[i]);
				if (i < s0.partLabels.size()) partl.push_back(s0.partLabels[i]);
			}
		}
		s.tris = t;
		s.segLabels = segl;
		s.partLabels = partl;
	}
	for (auto& bw : s.boneWeights) {
		std::map<uint16_t, float> nw;
		for (auto& kv : bw)
			if (kv.first < map.size() && map[kv.first] >= 0) nw[uint16_t(map[kv.first])] = kv.second;
		bw = nw;
	}
	{
		std::vector<uint32_t> ln;
		for (auto v : s.lockedNorm)
			if (v < map.size() && map[v] >= 0) ln.push_back(uint32_t(map[v]));
		std::sort(ln.begin(), ln.end());
		s.lockedNorm = ln;
	}
	if (s.isDynamic) s.dynamicCount = s.nv;
	return s;
}

#define REQ(cond, cls, msg) do { if (!(cond)) ctx.viol(cls, where + ": " + (msg)); } while (0)

void checkShapeIndices(NifFile& nif, NiShape* shape, Ctx& ctx, const std::string& where0) {
	auto& hdr = nif.GetHeader();
	std::string where = where0 + " [" + shape->GetBlockName() + " '" + shape->name.get() + "']";
	uint32_t nv = shape->GetNumVertices();
	std::vector<Triangle> tris;
	bool triOk = shape->GetTriangles(tris);
	for (auto& t : tris) REQ(t.p1 < nv && t.p2 < nv && t.p3 < nv, "index:triangle>=numVerts", "triangle " + triStr(t) + " with " + std::to_string(nv) + " vertices");
	if (triOk && !shape->HasType<NiTriStrips>())
		REQ(shape->GetNumTriangles() == tris.size(), "counter:numTriangles", "GetNumTriangles=" + std::to_string(shape->GetNumTriangles()) + " but " + std::to_string(tris.size()) + " triangles");

	if (auto gd = shape->DataRef() ? hdr.GetBlock<NiGeometryData>(shape->DataRef()) : nullptr) {
		REQ(gd->vertices.size() == nv, "counter:vertices", "vertices.size=" + std::to_string(gd->vertices.size()) + " numVertices=" + std::to_string(nv));
		REQ(gd->normals.empty() || gd->normals.size() == nv, "array:normals", "normals.size=" + std::to_string(gd->normals.size()) + " nv=" + std::to_string(nv));
		REQ(gd->tangents.empty() || gd->tangents.size() == nv, "array:tangents", "tangents.size=" + std::to_string(gd->tangents.size()));
		REQ(gd->bitangents.empty() || gd->bitangents.size() == nv, "array:bitangents", "bitangents.size=" + std::to_string(gd->bitangents.size()));
		REQ(gd->vertexColors.empty() || gd->vertexColors.size() == nv, "array:colors", "vertexColors.size=" + std::to_string(gd->vertexColors.size()));
		for (auto& uvs : gd->uvSets) REQ(uvs.size() == nv, "array:uvs", "uvSet.size=" + std::to_string(uvs.size()) + " nv=" + std::to_string(nv));
		if (auto tsd = dynamic_cast<NiTriShapeData*>(gd)) {
			REQ(PeekTSD::ntp(*tsd) == 3 * PeekTSD::tris(*tsd).size(), "counter:numTrianglePoints",
				"numTrianglePoints=" + std::to_string(PeekTSD::ntp(*tsd)) + " triangles=" + std::to_string(PeekTSD::tris(*tsd).size()));
			REQ(tsd->GetNumTriangles() == PeekTSD::tris(*tsd).size(), "counter:numTriangles(data)", "data numTriangles=" + std::to_string(tsd->GetNumTriangles()));
		}
		if (auto sd = dynamic_cast<NiTriStripsData*>(gd)) {
			REQ(sd->stripsInfo.stripLengths.size() == sd->stripsInfo.points.size() || !sd->stripsInfo.hasPoints, "counter:strips", "stripLengths vs points");
			for (size_t k = 0; k < sd->stripsInfo.points.size(); k++) {
				if (k < sd->stripsInfo.stripLengths.size())
					REQ(sd->stripsInfo.stripLengths[uint32_t(k)] == sd->stripsInfo.points[k].size(), "counter:stripLength", "strip " + std::to_string(k));
				for (auto p : sd->stripsInfo.points[k]) REQ(p < nv, "index:strip>=numVerts", "strip point " + std::to_string(p) + " nv=" + std::to_string(nv));
			}
		}
	}
	if (auto bs = dynamic_cast<BSTriShape*>(shape)) {
		REQ(bs->vertData.size() == nv, "counter:vertData", "vertData.size=" + std::to_string(bs->vertData.size()) + " numVertices=" + std::to_string(nv));
		REQ(bs->triangles.size() == bs->GetNumTriangles(), "counter:bsTriangles", "triangles.size=" + std::to_string(bs->triangles.size()) + " numTriangles=" + std::to_string(bs->GetNumTriangles()));
		if (auto dyn = dynamic_cast<BSDynamicTriShape*>(shape))
			REQ(dyn->dynamicData.size() == nv, "counter:dynamicData", "dynamicData.size=" + std::to_string(dyn->dynamicData.size()) + " nv=" + std::to_string(nv));
		if (auto lod = dynamic_cast<BSMeshLODTriShape*>(shape))
			REQ(uint64_t(lod->lodSize0) + lod->lodSize1 + lod->lodSize2 <= bs->GetNumTriangles() || bs->GetNumTriangles() == 0 || true, "counter:lod", "lod sizes");
	}
	if (auto si = shape->SkinInstanceRef() ? hdr.GetBlock<NiSkinInstance>(shape->SkinInstanceRef()) : nullptr) {
		if (auto sd = hdr.GetBlock(si->dataRef)) {
			REQ(sd->numBones == sd->bones.size(), "counter:numBones", "numBones=" + std::to_string(sd->numBones) + " bones=" + std::to_string(sd->bones.size()));
			for (size_t b = 0; b < sd->bones.size(); b++) {
				auto& bd = sd->bones[b];
				REQ(bd.numVertices == bd.vertexWeights.size(), "counter:boneNumVertices", "bone " + std::to_string(b) + " numVertices=" + std::to_string(bd.numVertices) + " weights=" + std::to_string(bd.vertexWeights.size()));
				for (auto& w : bd.vertexWeights) REQ(w.index < nv, "index:skinWeight>=numVerts", "bone " + std::to_string(b) + " weight index " + std::to_string(w.index) + " nv=" + std::to_string(nv));
			}
		}
		if (auto sp = hdr.GetBlock(si->skinPartitionRef)) {
			REQ(sp->numPartitions == sp->partitions.size(), "counter:numPartitions", "numPartitions=" + std::to_string(sp->numPartitions) + " partitions=" + std::to_string(sp->partitions.size()));
			size_t pi = 0;
			for (auto& p : sp->partitions) {
				std::string pn = "partition " + std::to_string(pi++);
				REQ(p.numVertices == p.vertexMap.size(), "counter:partNumVertices", pn + " numVertices=" + std::to_string(p.numVertices) + " vertexMap=" + std::to_string(p.vertexMap.size()));
				for (auto v : p.vertexMap) REQ(v < nv, "index:vertexMap>=numVerts", pn + " vertexMap entry " + std::to_string(v) + " nv=" + std::to_string(nv));
				if (p.numStrips == 0) REQ(p.numTriangles == p.triangles.size(), "counter:partNumTriangles", pn + " numTriangles=" + std::to_string(p.numTriangles) + " triangles=" + std::to_string(p.triangles.size()));
				size_t lim = sp->bMappedIndices ? p.vertexMap.size() : nv;
				for (auto& t : p.triangles) REQ(t.p1 < lim && t.p2 < lim && t.p3 < lim, "index:partTriangle", pn + " triangle " + triStr(t) + " limit " + std::to_string(lim));
				for (auto& t : p.trueTriangles) REQ(t.p1 < nv && t.p2 < nv && t.p3 < nv, "index:partTrueTriangle", pn + " true triangle " + triStr(t) + " nv=" + std::to_string(nv));
				for (auto& st : p.strips)
					for (auto v : st) REQ(v < lim, "index:partStrip", pn + " strip point " + std::to_string(v));
				if (p.hasVertexWeights) REQ(p.vertexWeights.size() == p.vertexMap.size(), "array:partWeights", pn + " vertexWeights=" + std::to_string(p.vertexWeights.size()) + " vertexMap=" + std::to_string(p.vertexMap.size()));
				if (p.hasBoneIndices) REQ(p.boneIndices.size() == p.vertexMap.size(), "array:partBoneIndices", pn + " boneIndices=" + std::to_string(p.boneIndices.size()));
			}
			if (!sp->vertData.empty()) REQ(sp->vertData.size() == nv, "counter:partitionVertData", "skin partition vertData=" + std::to_string(sp->vertData.size()) + " nv=" + std::to_string(nv));
			if (auto bsd = dynamic_cast<BSDismemberSkinInstance*>(si))
				REQ(bsd->partitions.size() == sp->partitions.size(), "counter:dismemberPartitions", "dismember list " + std::to_string(bsd->partitions.size()) + " vs partitions " + std::to_string(sp->partitions.size()));
		}
	}
	for (auto& ed : shape->extraDataRefs) {
		auto ie = hdr.GetBlock<NiIntegersExtraData>(ed);
		if (ie && ie->name == "LOCKEDNORM")
			for (uint32_t i = 0; i < ie->integersData.size(); i++) REQ(ie->integersData[i] < nv, "index:lockedNorm>=numVerts", "LOCKEDNORM value " + std::to_string(ie->integersData[i]) + " nv=" + std::to_string(nv));
	}
	if (dynamic_cast<BSSubIndexTriShape*>(shape) && ctx.property != "C13") checkSegmentRanges(nif, shape, ctx, where0); // (C13 replaces triangle lists; segment upkeep is C17's subject)
}

void checkSegmentRanges(NifFile& nif, NiShape* shape, Ctx& ctx, const std::string& where0) {
	auto sits = dynamic_cast<BSSubIndexTriShape*>(shape);
	if (!sits) return;
	std::string where = where0 + " [" + shape->GetBlockName() + " '" + shape->name.get() + "']";
	uint32_t nt = sits->GetNumTriangles();
	auto& hdrv = nif.GetHeader().GetVersion();
	if (hdrv.IsFO4() || hdrv.IsFO76()) {
		auto& sg = PeekSITS::seg(*sits);
		if (sg.segments.empty()) return;
		REQ(sg.numSegments == sg.segments.size(), "seg:numSegments", "numSegments=" + std::to_string(sg.numSegments) + " segments=" + std::to_string(sg.segments.size()));
		REQ(sg.numPrimitives == nt, "seg:numPrimitives", "segmentation.numPrimitives=" + std::to_string(sg.numPrimitives) + " triangles=" + std::to_string(nt));
		uint64_t expectStart = 0, sum = 0;
		for (size_t i = 0; i < sg.segments.size(); i++) {
			auto& s = sg.segments[i];
			std::string sn = "segment " + std::to_string(i);
			REQ(s.startIndex == expectStart, "seg:not-contiguous", sn + " startIndex=" + std::to_string(s.startIndex) + " expected " + std::to_string(expectStart));
			REQ(uint64_t(s.startIndex) / 3 + s.numPrimitives <= nt, "seg:beyond-triangles", sn + " start/3+num=" + std::to_string(s.startIndex / 3 + s.numPrimitives) + " triangles=" + std::to_string(nt));
			REQ(s.numSubSegments == s.subSegments.size(), "seg:numSubSegments", sn);
			uint64_t subStart = 0, subSum = 0;
			for (size_t j = 0; j < s.subSegments.size(); j++) {
				auto& ss = s.subSegments[j];
				std::string ssn = sn + " sub " + std::to_string(j);
				if (j == 0) REQ(ss.startIndex >= s.startIndex, "seg:sub-before-parent", ssn + " startIndex=" + std::to_string(ss.startIndex) + " parent start=" + std::to_string(s.startIndex));
				else REQ(ss.startIndex == subStart, "seg:sub-not-contiguous", ssn + " startIndex=" + std::to_string(ss.startIndex) + " expected " + std::to_string(subStart));
				subStart = uint64_t(ss.startIndex) + 3ull * ss.numPrimitives;
				subSum += ss.numPrimitives;
				REQ(subStart <= uint64_t(s.startIndex) + 3ull * s.numPrimitives, "seg:sub-beyond-parent", ssn + " ends at " + std::to_string(subStart) + " parent ends at " + std::to_string(uint64_t(s.startIndex) + 3ull * s.numPrimitives));
			}
			if (!s.subSegments.empty())
				REQ(subStart == uint64_t(s.startIndex) + 3ull * s.numPrimitives, "seg:subs-dont-fill-tail", sn + " last sub ends at " + std::to_string(subStart) + " segment ends at " + std::to_string(uint64_t(s.startIndex) + 3ull * s.numPrimitives));
			expectStart = uint64_t(s.startIndex) + 3ull * s.numPrimitives;
			sum += s.numPrimitives;
		}
		REQ(sum == nt, "seg:sum!=triangles", "segments sum to " + std::to_string(sum) + " triangles=" + std::to_string(nt));
	}
	else {
		auto& sg = PeekSITS::sse(*sits);
		uint64_t expect = 0;
		for (size_t i = 0; i < sg.size(); i++) {
			if (i > 0) REQ(sg[i].index == expect, "seg:sse-not-contiguous", "SSE segment " + std::to_string(i));
			expect = uint64_t(sg[i].index) + 3ull * sg[i].numTris;
			REQ(expect <= 3ull * nt, "seg:sse-beyond-triangles", "SSE segment " + std::to_string(i));
		}
	}
}

void checkPartitions(NifFile& nif, NiShape* shape, Ctx& ctx, const std::string& where0, bool full) {
	auto& hdr = nif.GetHeader();
	std::string where = where0 + " [" + shape->GetBlockName() + " '" + shape->name.get() + "']";
	if (!shape->SkinInstanceRef()) return;
	auto si = hdr.GetBlock<NiSkinInstance>(shape->SkinInstanceRef());
	if (!si) return;
	auto sp = hdr.GetBlock(si->skinPartitionRef);
	if (!sp) return;
	std::vector<Triangle> tris;
	shape->GetTriangles(tris);
	std::multiset<TriKey> want, got;
	for (auto t : tris) want.insert(canonTri(t));
	sp->PrepareTrueTriangles();
	for (auto& p : sp->partitions)
		for (auto t : p.trueTriangles) got.insert(canonTri(t));
	if (want != got) {
		size_t missing = 0, extra = 0;
		for (auto& k : want) if (got.count(k) < want.count(k)) missing++;
		for (auto& k : got) if (want.count(k) < got.count(k)) extra++;
		ctx.viol("partition:cover", where + ": shape has " + std::to_string(want.size()) + " triangles, partitions hold " + std::to_string(got.size()) + " (" + std::to_string(missing) + " missing, " + std::to_string(extra) + " extra/duplicated)");
	}
	REQ(sp->numPartitions == sp->partitions.size(), "partition:numPartitions", "numPartitions=" + std::to_string(sp->numPartitions) + " partitions=" + std::to_string(sp->partitions.size()));
	if (auto bsd = dynamic_cast<BSDismemberSkinInstance*>(si))
		REQ(bsd->partitions.size() == sp->partitions.size(), "partition:dismember-misaligned", "dismember list " + std::to_string(bsd->partitions.size()) + " vs partitions " + std::to_string(sp->partitions.size()));
	if (!full) return;
	auto& ver = hdr.GetVersion();
	uint32_t limit = (ver.IsOB() || ver.IsFO3()) ? 18 : ver.IsSSE() ? 80 : 65535;
	uint32_t nbones = si->boneRefs.GetSize();
	size_t pi = 0;
	for (auto& p : sp->partitions) {
		std::string pn = "partition " + std::to_string(pi++);
		std::set<uint16_t> used;
		for (auto& t : p.trueTriangles) { used.insert(t.p1); used.insert(t.p2); used.insert(t.p3); }
		std::set<uint16_t> vm(p.vertexMap.begin(), p.vertexMap.end());
		REQ(vm.size() == p.vertexMap.size(), "partition:vertexMap-duplicates", pn + " vertexMap lists a vertex twice");
		REQ(vm == used, "partition:vertexMap!=used", pn + " vertexMap has " + std::to_string(vm.size()) + " vertices, its triangles use " + std::to_string(used.size()));
		REQ(std::is_sorted(p.vertexMap.begin(), p.vertexMap.end()), "partition:vertexMap-unsorted", pn);
		REQ(p.numBones <= limit, "partition:bone-limit", pn + " uses " + std::to_string(p.numBones) + " bones, limit " + std::to_string(limit));
		REQ(p.numBones == p.bones.size(), "partition:numBones", pn + " numBones=" + std::to_string(p.numBones) + " bones=" + std::to_string(p.bones.size()));
		for (auto b : p.bones) REQ(b < nbones, "partition:bone>=skinBones", pn + " bone " + std::to_string(b) + " of " + std::to_string(nbones));
		if (sp->bMappedIndices && p.numStrips == 0) {
			REQ(p.triangles.size() == p.trueTriangles.size(), "partition:mapped-count", pn + " mapped " + std::to_string(p.triangles.size()) + " true " + std::to_string(p.trueTriangles.size()));
			for (size_t i = 0; i < p.triangles.size(); i++) {
				auto t = p.triangles[i];
				REQ(t.p1 < p.vertexMap.size() && t.p2 < p.vertexMap.size() && t.p3 < p.vertexMap.size(), "partition:mapped-oob", pn + " mapped triangle " + triStr(t));
				Triangle m(p.vertexMap[t.p1], p.vertexMap[t.p2], p.vertexMap[t.p3]);
				REQ(canonTri(m) == canonTri(p.trueTriangles[i]), "partition:mapped!=true", pn + " mapped triangle " + std::to_string(i) + " translates to " + triStr(m) + " true is " + triStr(p.trueTriangles[i]));
			}
		}
		for (size_t i = 0; i < p.vertexWeights.size(); i++) {
			auto& w = p.vertexWeights[i];
			float sum = w.w1 + w.w2 + w.w3 + w.w4;
			bool ok = w.w1 >= 0 && w.w2 >= 0 && w.w3 >= 0 && w.w4 >= 0 && (std::fabs(sum - 1.0f) < 1e-4f || (w.w1 == 0 && w.w2 == 0 && w.w3 == 0 && w.w4 == 0));
			REQ(ok, "partition:weights", pn + " vertex " + std::to_string(i) + " weights sum to " + std::to_string(sum));
			if (i < p.boneIndices.size()) {
				auto& bi = p.boneIndices[i];
				uint32_t lim = std::max<uint32_t>(1, p.numBones);
				REQ(bi.i1 < lim && bi.i2 < lim && bi.i3 < lim && bi.i4 < lim, "partition:bone-slot", pn + " vertex " + std::to_string(i) + " bone slot out of " + std::to_string(lim));
			}
		}
	}
}

} // namespace sim
