// nifsim — shared primitives: PRNG, hash, simulated stream buffers, simulated disk.
#pragma once
#include <cstdint>
#include <cstring>
#include <ios>
#include <algorithm>
#include <map>
#include <streambuf>
#include <string>
#include <vector>

namespace sim {

// splitmix64-seeded xoshiro256**; used only to expand "salt" values that are part of a plan
// (mesh builders, typed synthesis). Plan *generation* happens in check.py from VERIF_SEED.
struct Rng {
	uint64_t s[4];
	static uint64_t splitmix(uint64_t& x) {
		uint64_t z = (x += 0x9E3779B97F4A7C15ull);
		z = (z ^ (z >> 30)) * 0xBF58476D1CE4E5B9ull;
		z = (z ^ (z >> 27)) * 0x94D049BB133111EBull;
		return z ^ (z >> 31);
	}
	explicit Rng(uint64_t seed) {
		uint64_t x = seed;
		for (auto& v : s) v = splitmix(x);
	}
	static uint64_t rotl(uint64_t x, int k) { return (x << k) | (x >> (64 - k)); }
	uint64_t next() {
		uint64_t r = rotl(s[1] * 5, 7) * 9, t = s[1] << 17;
		s[2] ^= s[0]; s[3] ^= s[1]; s[1] ^= s[2]; s[0] ^= s[3]; s[2] ^= t; s[3] = rotl(s[3], 45);
		return r;
	}
	uint32_t below(uint32_t n) { return n ? uint32_t((next() >> 11) % n) : 0; }
	double unit() { return (next() >> 11) * (1.0 / 9007199254740992.0); }
	bool chance(double p) { return unit() < p; }
	float range(float lo, float hi) { return lo + float(unit()) * (hi - lo); }
};

struct Hash64 {
	uint64_t h = 0xcbf29ce484222325ull;
	void add(const void* p, size_t n) {
		auto b = static_cast<const unsigned char*>(p);
		for (size_t i = 0; i < n; i++) { h ^= b[i]; h *= 0x100000001b3ull; }
	}
	void u64(uint64_t v) { add(&v, 8); }
	void i(long long v) { add(&v, 8); }
	void f(float v) { uint32_t u; memcpy(&u, &v, 4); if ((u & 0x7fffffff) == 0) u = 0; add(&u, 4); }
	void str(const std::string& s) { u64(s.size()); add(s.data(), s.size()); }
	void tag(const char* s) { add(s, strlen(s)); u64(0xfe); }
};

inline uint64_t hashBytes(const std::string& s) { Hash64 h; h.str(s); return h.h; }

// ---------------------------------------------------------------------------------------------
// Input side: serves the first `limit` bytes of an image. At the limit: EOF, or (eio) throws so
// that the istream front end sets badbit (media error).
// Read window of the simulated input stream (F-CHUNK): 0 = the whole image is the get area (as with an istringstream);
// w > 0 = at most w bytes are buffered at a time (as with a file stream: in_avail() and the get area end before the file does).
inline size_t& simReadWindow() { static size_t w = 0; return w; }
// F-REUSE (plan knob "reuse_object"): restarts load the saved file back into the NifFile object that wrote it
inline bool& simReuseObject() { static bool r = false; return r; }
// F-NOSEEK for a whole run (plan knob "pipe_saves"): every save of the run goes to a stream that cannot seek
inline bool& simPipeSaves() { static bool r = false; return r; }
// with plan knob "pipe_alternate" only every other save of such a run (the 1st, 3rd, ...) goes to the non-seekable stream, so that
// every oracle that compares two saves compares the sizing-pass path with the back-patching path (the bytes must not depend on it)
inline bool& simPipeAlternate() { static bool r = false; return r; }
inline unsigned& simSaveCounter() { static unsigned n = 0; return n; }
// plan knob "save_options": what a non-raw save of the run switches on (0 = optimize + sortBlocks, 1 = optimize only, 2 = sortBlocks only)
inline int& simSaveOptions() { static int m = 0; return m; }

struct SimIBuf : std::streambuf {
	std::string img;
	size_t limit;
	bool eio;
	bool hitLimit = false;
	size_t window;
	size_t winStart = 0;
	SimIBuf(std::string image, size_t lim = std::string::npos, bool eioAtLimit = false)
		: img(std::move(image)), eio(eioAtLimit), window(simReadWindow()) {
		limit = lim > img.size() ? img.size() : lim;
		setWin(0);
	}
	void setWin(size_t pos) {
		char* b = img.data();
		winStart = pos;
		size_t end = window ? std::min(limit, pos + window) : limit;
		setg(b + pos, b + pos, b + end);
	}
	size_t consumed() const { return winStart + size_t(gptr() - eback()); }
	int_type underflow() override {
		if (gptr() < egptr()) return traits_type::to_int_type(*gptr());
		size_t pos = consumed();
		if (pos < limit) {
			setWin(pos);
			return traits_type::to_int_type(*gptr());
		}
		if (limit < img.size()) hitLimit = true;
		if (eio && limit < img.size()) throw std::ios_base::failure("simulated EIO");
		return traits_type::eof();
	}
	pos_type seekoff(off_type off, std::ios_base::seekdir dir, std::ios_base::openmode) override {
		off_type base = dir == std::ios_base::beg ? 0 : dir == std::ios_base::cur ? off_type(consumed()) : off_type(limit);
		off_type np = base + off;
		if (np < 0 || np > off_type(limit)) return pos_type(off_type(-1));
		setWin(size_t(np));
		return pos_type(np);
	}
	pos_type seekpos(pos_type p, std::ios_base::openmode m) override { return seekoff(off_type(p), std::ios_base::beg, m); }
};

// Output side: records the write trace; supports tellp/seekp (Save back-patches the size table);
// can fail after `failAfter` bytes have been accepted (ENOSPC/EIO).
struct SimOBuf : std::streambuf {
	struct Seg { size_t off, len; };
	std::string data;
	std::vector<Seg> trace;
	size_t pos = 0;
	size_t accepted = 0;
	size_t failAfter = std::string::npos;
	bool failed = false;
	bool seekable = true;

	size_t tell() const { return pos; }
	std::streamsize xsputn(const char* s, std::streamsize n) override {
		if (failed) return 0;
		size_t take = size_t(n);
		if (failAfter != std::string::npos && accepted + take > failAfter) {
			take = failAfter > accepted ? failAfter - accepted : 0;
			failed = true;
		}
		if (take) {
			if (pos + take > data.size()) data.resize(pos + take);
			memcpy(&data[pos], s, take);
			if (!trace.empty() && trace.back().off + trace.back().len == pos) trace.back().len += take;
			else trace.push_back({pos, take});
			if (keepLog) {
				if (!log.empty() && log.back().first + log.back().second.size() == pos) log.back().second.append(s, take);
				else log.emplace_back(pos, std::string(s, take));
			}
			pos += take;
			accepted += take;
		}
		return std::streamsize(take);
	}
	int_type overflow(int_type c) override {
		if (traits_type::eq_int_type(c, traits_type::eof())) return traits_type::not_eof(c);
		char ch = traits_type::to_char_type(c);
		return xsputn(&ch, 1) == 1 ? c : traits_type::eof();
	}
	pos_type seekoff(off_type off, std::ios_base::seekdir dir, std::ios_base::openmode) override {
		if (!seekable) return pos_type(off_type(-1));
		off_type base = dir == std::ios_base::beg ? 0 : dir == std::ios_base::cur ? off_type(pos) : off_type(data.size());
		off_type np = base + off;
		if (np < 0) return pos_type(off_type(-1));
		pos = size_t(np);
		return pos_type(np);
	}
	pos_type seekpos(pos_type p, std::ios_base::openmode m) override { return seekoff(off_type(p), std::ios_base::beg, m); }

	// With keepLog: every write with its own bytes, so that the image left by a writer killed
	// after k bytes of the *real* trace (size table not yet back-patched) can be rebuilt.
	bool keepLog = false;
	std::vector<std::pair<size_t, std::string>> log;
	std::string tornImage(size_t k) const {
		std::string out;
		size_t done = 0;
		for (auto& w : log) {
			if (done >= k) break;
			size_t take = std::min(w.second.size(), k - done);
			if (w.first + take > out.size()) out.resize(w.first + take);
			memcpy(&out[w.first], w.second.data(), take);
			done += take;
		}
		return out;
	}
};

} // namespace sim
