// nifsim — library of NifFile-level edit operations shared by the history profiles (C02, C07, C11, C14).
// Every selector is interpreted modulo what exists when the step runs.
#include "models.hpp"
#include "builders.hpp"
#include "edits.hpp"
#include <functional>

namespace sim {

static NiNode* nodeAt(NifFile& nif, uint64_t sel) {
	auto nodes = nif.GetNodes();
	if (nodes.empty()) return nullptr;
	return nodes[sel % nodes.size()];
}

bool applyEdit(NifFile& nif, const json& st, Ctx& ctx, NifFile* other) {
	std::string op = jstr(st, "op");
	uint64_t sel = ju64(st, "shape", 0);
	uint64_t salt = ju64(st, "salt", 1);
	Rng r(salt * 2654435761ull + 5);
	NiShape* shape = shapeAt(nif, sel);
	ctx.hist.tag(op.c_str());
	if (op == "DeleteVerts") {
		if (!shape || shape->GetNumVertices() == 0) return false;
		auto del = pickVerts(st["verts"], shape->GetNumVertices());
		if (del.size() >= shape->GetNumVertices()) del.resize(shape->GetNumVertices() - 1); // keep the shape alive
		if (del.empty()) return false;
		bool gone = nif.DeleteVertsForShape(shape, del);
		if (gone) nif.DeleteShape(shape); // what the API tells the caller to do
		ctx.probe("edit_delete_verts");
		return true;
	}
	if (op == "AddNode") {
		MatTransform x;
		x.translation = Vector3(r.range(-5.f, 5.f), r.range(-5.f, 5.f), r.range(-5.f, 5.f));
		nif.AddNode("VNode" + std::to_string(salt % 1000), x, r.chance(0.5) ? nodeAt(nif, salt) : nullptr);
		ctx.probe("edit_add_node");
		return true;
	}
	if (op == "DeleteNode") {
		auto nd = nodeAt(nif, salt);
		if (!nd || nd == nif.GetRootNode() || !NifFile::CanDeleteNode(nd) || nd->name.get().empty()) return false;
		nif.DeleteNode(nd->name.get());
		ctx.probe("edit_delete_node");
		return true;
	}
	if (op == "DeleteShape") {
		if (!shape || nif.GetShapes().size() < 2) return false;
		nif.DeleteShape(shape);
		ctx.probe("edit_delete_shape");
		return true;
	}
	if (op == "RenameShape") {
		if (!shape) return false;
		NifFile::RenameShape(shape, "Renamed" + std::to_string(salt % 1000));
		return true;
	}
	if (op == "SetTexture") {
		if (!shape) return false;
		std::string t = "textures\\verif\\e" + std::to_string(salt % 1000) + ".dds";
		nif.SetTextureSlot(shape, t, uint32_t(salt % 3));
		ctx.probe("edit_set_texture");
		return true;
	}
	if (op == "SetTexturePath") {
		// a texture path assembled from a small grammar (prefixes, nested folders named textures/data, separators,
		// whitespace, case): what other tools and users put into files
		if (!shape) return false;
		static const char* prefix[] = {"", "Data\\", "data\\Textures\\", "C:\\Games\\Data\\textures\\", "\\", "textures\\", "..\\textures\\", " ", "/data/textures/", "Data\\Textures\\armor\\mod\\textures\\"};
		static const char* mid[] = {"", "armor\\", "textures\\", "a\\\\b\\", "mod/sub/", "Textures\\x\\", "data\\", "  ", "landscape\\lod\\"};
		static const char* leaf[] = {"cuirass.dds", "t_n.dds", "x.DDS", "tex .dds ", "", "noext", "a.b.c.dds"};
		std::string path = std::string(prefix[r.below(10)]) + mid[r.below(9)] + (r.chance(0.3) ? mid[r.below(9)] : "") + leaf[r.below(7)];
		nif.SetTextureSlot(shape, path, uint32_t(salt % 3));
		ctx.probe("edit_set_texture_path_from_grammar");
		return true;
	}
	// edits made through the shape object itself (NiShape virtuals reach the geometry through the shape's own link to its data)
	if (op == "ShapeSetTriangles") {
		if (!shape) return false;
		std::vector<Triangle> t;
		if (!shape->GetTriangles(t) || t.size() < 2 || shape->HasType<NiTriStrips>()) return false;
		if (r.chance(0.5)) t.pop_back();
		else std::reverse(t.begin(), t.end());
		shape->SetTriangles(t);
		ctx.probe("edit_through_shape_object");
		return true;
	}
	if (op == "ShapeSetBounds") {
		if (!shape) return false;
		BoundingSphere b;
		b.center = Vector3(r.range(-9.f, 9.f), r.range(-9.f, 9.f), r.range(-9.f, 9.f));
		b.radius = r.range(1.f, 50.f);
		shape->SetBounds(b);
		ctx.probe("edit_through_shape_object");
		return true;
	}
	if (op == "ShapeToggleColors") {
		if (!shape || shape->GetNumVertices() == 0) return false;
		shape->SetVertexColors(!shape->HasVertexColors());
		ctx.probe("edit_through_shape_object");
		return true;
	}
	if (op == "ShapeUpdateBounds") {
		if (!shape || shape->GetNumVertices() == 0) return false;
		nif.MoveVertex(shape, Vector3(r.range(-30.f, 30.f), r.range(-30.f, 30.f), r.range(-30.f, 30.f)), int(salt % shape->GetNumVertices()));
		shape->UpdateBounds();
		ctx.probe("edit_through_shape_object");
		return true;
	}
	if (op == "ReplaceWithClone") {
		// ReplaceBlock with a block of the same type (a clone of the block itself)
		auto& hdr = nif.GetHeader();
		uint32_t nb = hdr.GetNumBlocks();
		if (nb < 2 || nif.HasUnknown()) return false;
		uint32_t id = 1 + uint32_t(salt % (nb - 1));
		auto obj = hdr.GetBlock<NiObject>(id);
		if (!obj || dynamic_cast<NiGeometryData*>(obj) || dynamic_cast<NiShape*>(obj)) return false; // shapes/data are linked by raw pointers
		hdr.ReplaceBlock(id, obj->Clone());
		ctx.probe("edit_replace_with_clone");
		return true;
	}
	if (op == "OffsetShape") {
		if (!shape) return false;
		nif.OffsetShape(shape, Vector3(1.0f, 0.5f, -0.25f));
		return true;
	}
	if (op == "MoveVertex") {
		if (!shape || shape->GetNumVertices() == 0) return false;
		nif.MoveVertex(shape, Vector3(r.range(-3.f, 3.f), r.range(-3.f, 3.f), r.range(-3.f, 3.f)), int(salt % shape->GetNumVertices()));
		return true;
	}
	if (op == "SetNodeTransform") {
		auto nd = nodeAt(nif, salt);
		if (!nd) return false;
		MatTransform x;
		x.translation = Vector3(r.range(-5.f, 5.f), 0, 1);
		x.scale = 1.5f;
		nif.SetNodeTransformToParent(nd->name.get(), x);
		return true;
	}
	if (op == "SetNodeName") {
		auto nd = nodeAt(nif, salt);
		if (!nd) return false;
		nif.SetNodeName(nif.GetBlockID(nd), "NN" + std::to_string(salt % 1000));
		return true;
	}
	if (op == "AddExtraData") {
		NiAVObject* target = shape && r.chance(0.5) ? static_cast<NiAVObject*>(shape) : static_cast<NiAVObject*>(nif.GetRootNode());
		if (!target) return false;
		auto ed = std::make_unique<NiStringExtraData>();
		ed->name.get() = "VED" + std::to_string(salt % 100);
		ed->stringData.get() = "value " + std::to_string(salt % 7);
		nif.AssignExtraData(target, std::move(ed));
		ctx.probe("edit_add_extradata");
		return true;
	}
	if (op == "AddLooseBlock") {
		auto ed = std::make_unique<NiIntegerExtraData>();
		ed->name.get() = "Loose" + std::to_string(salt % 100);
		nif.GetHeader().AddBlock(std::move(ed));
		ctx.probe("edit_add_loose_block");
		return true;
	}
	if (op == "CloneShape") {
		NifFile* src = other ? other : &nif;
		NiShape* s = shapeAt(*src, sel);
		if (!s) return false;
		auto c = nif.CloneShape(s, "Clone" + std::to_string(salt % 1000), other);
		if (c) ctx.probe(other ? "edit_clone_from_other" : "edit_clone_shape");
		return c != nullptr;
	}
	if (op == "AddShape") {
		json spec = st.value("spec", json::object());
		if (!spec.contains("name")) spec["name"] = "Added" + std::to_string(salt % 1000);
		auto& v = nif.GetHeader().GetVersion();
		if (!(v.IsOB() || v.IsFO3() || v.IsSK() || v.IsSSE() || v.IsFO4() || v.IsFO76())) return false;
		buildShape(nif, spec, ctx);
		ctx.probe("edit_add_shape");
		return true;
	}
	if (op == "CalcNormals") {
		if (!shape) return false;
		nif.CalcNormalsForShape(shape, r.chance(0.3), r.chance(0.5));
		return true;
	}
	if (op == "CalcTangents") {
		if (!shape) return false;
		nif.CalcTangentsForShape(shape);
		return true;
	}
	if (op == "InvertUVs") {
		if (!shape) return false;
		nif.InvertUVsForShape(shape, true, r.chance(0.5));
		return true;
	}
	if (op == "UpdateSkinPartitions") {
		if (!shape || !shape->SkinInstanceRef() || shape->SkinInstanceRef()->IsEmpty()) return false;
		nif.UpdateSkinPartitions(shape);
		return true;
	}
	if (op == "DeleteSkinning") {
		if (!shape || !shape->SkinInstanceRef() || shape->SkinInstanceRef()->IsEmpty()) return false;
		nif.DeleteSkinning(shape);
		ctx.probe("edit_delete_skinning");
		return true;
	}
	if (op == "DeleteShader") {
		if (!shape) return false;
		nif.DeleteShader(shape);
		return true;
	}
	if (op == "AlphaProperty") {
		if (!shape) return false;
		if (nif.GetAlphaProperty(shape)) nif.RemoveAlphaProperty(shape);
		else nif.AssignAlphaProperty(shape, std::make_unique<NiAlphaProperty>());
		return true;
	}
	if (op == "SetParentNode") {
		auto nd = nodeAt(nif, salt);
		if (!shape || !nd) return false;
		nif.SetParentNode(shape, nd);
		return true;
	}
	if (op == "MoveBlocks") {
		// block-level: another legal on-disk order (other exporters write blocks in any order). The relative order of the
		// node blocks is kept, so "the root is the first node" keeps selecting the same block.
		auto& hdr = nif.GetHeader();
		uint32_t n = hdr.GetNumBlocks();
		if (n < 2) return false;
		std::vector<uint32_t> nonNodes;
		for (uint32_t i = 0; i < n; i++)
			if (!hdr.GetBlock<NiNode>(i)) nonNodes.push_back(i);
		if (nonNodes.empty()) return false;
		std::vector<uint32_t> seq(n); // seq[newPos] = oldIndex
		for (uint32_t i = 0; i < n; i++) seq[i] = i;
		std::string mode = jstr(st, "mode", (salt & 1) ? "front" : "swap");
		if (mode == "nodes") {
			// the node blocks themselves in another order: a child node may precede its parent, the first node of the file
			// (what the library takes for the root) may be another one afterwards - only where a profile asks for it
			std::vector<uint32_t> nodes;
			for (uint32_t i = 0; i < n; i++)
				if (hdr.GetBlock<NiNode>(i)) nodes.push_back(i);
			if (nodes.size() < 2) return false;
			uint32_t a = nodes[r.below(uint32_t(nodes.size()))], b = nodes[r.below(uint32_t(nodes.size()))];
			if (a == b) return false;
			std::swap(seq[a], seq[b]);
			ctx.probe("edit_swap_node_blocks");
		}
		else if (mode == "front") {
			uint32_t b = nonNodes[r.below(uint32_t(nonNodes.size()))];
			seq.erase(seq.begin() + b);
			seq.insert(seq.begin(), b);
			ctx.probe("edit_move_block_to_front");
		}
		else {
			for (int k = 0; k < 1 + int(salt % 3); k++) {
				uint32_t a = nonNodes[r.below(uint32_t(nonNodes.size()))], b = nonNodes[r.below(uint32_t(nonNodes.size()))];
				std::swap(seq[a], seq[b]);
			}
			ctx.probe("edit_swap_blocks");
		}
		std::vector<uint32_t> newOrder(n); // newOrder[oldIndex] = newIndex
		for (uint32_t i = 0; i < n; i++) newOrder[seq[i]] = i;
		hdr.SetBlockOrder(newOrder);
		return true;
	}
	if (op == "UnlinkFromNode") {
		// block-level: empties one reference held by a node (child, extra data, collision object, controller, property):
		// the subtree behind it becomes loose, as after unlinking it in an editor
		auto nodes = nif.GetNodes();
		std::vector<NiRef*> cands;
		for (auto nd : nodes) {
			std::set<NiRef*> refs;
			nd->GetChildRefs(refs);
			std::vector<NiRef*> v;
			for (auto x : refs) if (!x->IsEmpty()) v.push_back(x);
			std::sort(v.begin(), v.end(), [](NiRef* a, NiRef* b) { return a->index < b->index; });
			cands.insert(cands.end(), v.begin(), v.end());
		}
		if (cands.empty()) return false;
		cands[salt % cands.size()]->Clear();
		ctx.probe("edit_unlink_from_node");
		return true;
	}
	if (op == "RebuildRefArray") {
		// block-level: a reference list is emptied and filled again with the same entries (what SetShapeBoneIDList and
		// similar helpers do)
		auto& hdr = nif.GetHeader();
		std::vector<std::function<void()>> rebuild, rebuildSkin;
		auto consider = [&](auto& arr, bool skin = false) {
			if (arr.GetSize() == 0) return;
			auto* pa = &arr;
			(skin ? rebuildSkin : rebuild).push_back([pa]() {
				std::vector<uint32_t> idx;
				pa->GetIndices(idx);
				pa->Clear();
				for (auto i : idx) pa->AddBlockRef(i);
			});
		};
		for (uint32_t i = 0; i < hdr.GetNumBlocks(); i++) {
			if (auto nd = hdr.GetBlock<NiNode>(i)) consider(nd->childRefs);
			if (auto av = hdr.GetBlock<NiAVObject>(i)) { consider(av->extraDataRefs); consider(av->propertyRefs); }
			if (auto si = hdr.GetBlock<NiSkinInstance>(i)) consider(si->boneRefs, true);
			if (auto bi = hdr.GetBlock<BSSkinInstance>(i)) consider(bi->boneRefs, true);
		}
		if (!rebuildSkin.empty() && (rebuild.empty() || jbool(st, "prefer_skin", false))) rebuild.swap(rebuildSkin);
		else rebuild.insert(rebuild.end(), rebuildSkin.begin(), rebuildSkin.end());
		if (rebuild.empty()) return false;
		rebuild[salt % rebuild.size()]();
		ctx.probe("edit_rebuild_ref_array");
		return true;
	}
	if (op == "SetEyeData") {
		auto bs = dynamic_cast<BSTriShape*>(shape);
		if (!bs) return false;
		std::vector<float> e(bs->GetNumVertices());
		for (auto& x : e) x = r.chance(0.5) ? 1.0f : 0.0f;
		NifFile::SetEyeDataForShape(shape, e);
		ctx.probe("edit_set_eye_data");
		return true;
	}
	if (op == "SetExportInfo") {
		// export info of a length around the one-byte chunk limit (the header stores it in pieces with a length byte each)
		static const size_t lens[] = {0, 40, 253, 254, 255, 256, 300, 508, 509, 510, 600, 900};
		size_t n = lens[salt % 12];
		std::string s;
		for (size_t i = 0; i < n; i++) s.push_back(char('a' + (i * 7 + salt) % 26));
		nif.GetHeader().SetExportInfo(s);
		ctx.probe("edit_set_export_info");
		return true;
	}
	if (op == "DeleteUnreferencedTyped") {
		// the typed public form of the clean-up (documented: does nothing while unknown block types are present)
		switch (salt % 5) {
			case 0: nif.DeleteUnreferencedBlocks<BSShaderTextureSet>(); break;
			case 1: nif.DeleteUnreferencedBlocks<NiExtraData>(); break;
			case 2: nif.DeleteUnreferencedBlocks<NiProperty>(); break;
			case 3: nif.DeleteUnreferencedBlocks<NiTimeController>(); break;
			default: nif.DeleteUnreferencedBlocks<NiSourceTexture>(); break;
		}
		ctx.probe("edit_delete_unreferenced_typed");
		return true;
	}
	if (op == "PrettySort") { nif.PrettySortBlocks(); return true; }
	if (op == "Optimize") { nif.Optimize(); return true; }
	if (op == "TrimTexturePaths") { nif.TrimTexturePaths(); return true; }
	if (op == "FixBSXFlags") { nif.FixBSXFlags(); return true; }
	if (op == "FixShaderFlags") { nif.FixShaderFlags(); return true; }
	if (op == "DeleteUnreferenced") { nif.DeleteUnreferencedBlocks(); return true; }
	if (op == "OptimizeFor") {
		auto& v = nif.GetHeader().GetVersion();
		if (!(v.IsSK() || v.IsSSE())) return false;
		OptOptions o;
		o.targetVersion = v.IsSK() ? NiVersion::getSSE() : NiVersion::getSK();
		o.headParts = false;
		o.removeParallax = jbool(st, "removeParallax", true);
		o.calcBounds = jbool(st, "calcBounds", true);
		nif.OptimizeFor(o);
		ctx.probe("edit_convert");
		return true;
	}
	return false;
}

const std::vector<std::string>& editOps() {
	static std::vector<std::string> v = {"DeleteVerts", "AddNode", "DeleteNode", "DeleteShape", "RenameShape", "SetTexture", "OffsetShape", "MoveVertex",
										 "SetNodeTransform", "SetNodeName", "AddExtraData", "AddLooseBlock", "CloneShape", "AddShape", "CalcNormals", "CalcTangents",
										 "InvertUVs", "UpdateSkinPartitions", "DeleteSkinning", "DeleteShader", "AlphaProperty", "SetParentNode", "PrettySort",
										 "Optimize", "TrimTexturePaths", "FixBSXFlags", "FixShaderFlags", "DeleteUnreferenced", "OptimizeFor", "ShapeSetTriangles", "ShapeSetBounds", "ShapeToggleColors", "ShapeUpdateBounds", "SetTexturePath", "ReplaceWithClone", "MoveBlocks", "UnlinkFromNode", "RebuildRefArray", "SetEyeData", "SetExportInfo", "DeleteUnreferencedTyped"};
	return v;
}

} // namespace sim
