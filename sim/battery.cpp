// nifsim — the read-only query battery (DESIGN 5.3): every getter of NifFile over every shape / node /
// bone present, folded into a digest of values (never addresses).
#include "sim.hpp"

namespace sim {

static void hv3(Hash64& h, const Vector3& v) { h.f(v.x); h.f(v.y); h.f(v.z); }
static void hxf(Hash64& h, const MatTransform& x) {
	hv3(h, x.translation);
	for (int i = 0; i < 3; i++) hv3(h, x.rotation[i]);
	h.f(x.scale);
}
template<typename T, typename F>
static void hvec(Hash64& h, const std::vector<T>* v, F f) {
	if (!v) { h.i(-1); return; }
	h.i((long long) v->size());
	for (auto& e : *v) f(h, e);
}

uint64_t batteryDigest(NifFile& nif, Ctx& ctx, uint64_t sampleSalt, BatteryTrace* trace, bool headerTables) {
	Hash64 h;
	auto MARK = [&](const std::string& label) { if (trace) trace->push_back({label, h.h}); };
	auto& hdr = nif.GetHeader();
	uint32_t nb = hdr.GetNumBlocks();
	h.i(nb);
	h.i(nif.IsValid());
	h.i(nif.HasUnknown());
	auto bid = [&](NiObject* o) { h.i(o ? (long long) nif.GetBlockID(o) : -1); };

	auto shapes = nif.GetShapes();
	auto nodes = nif.GetNodes();
	h.i((long long) shapes.size());
	h.i((long long) nodes.size());
	for (auto& n : nif.GetShapeNames()) h.str(n);
	h.i(nif.IsSSECompatible());
	h.i((long long) nif.GetTriangleLimit());
	bid(nif.GetRootNode());
	Vector3 rt;
	nif.GetRootTranslation(rt);
	hv3(h, rt);

	// budget on large models: sample entities (the sample is a pure function of the salt)
	bool big = nb > 60;
	Rng pick(sampleSalt * 77 + 5);
	auto take = [&](size_t i, size_t n) { (void) i; return !big || n <= 6 || pick.below(uint32_t(n)) < 6; };

	for (size_t si = 0; si < shapes.size(); si++) {
		if (!take(si, shapes.size())) continue;
		NiShape* s = shapes[si];
		setStage("battery:shape");
		h.tag("shape");
		h.str(s->name.get());
		h.str(s->GetBlockName());
		h.i(s->GetNumVertices());
		h.i(s->GetNumTriangles());
		h.i(s->IsSkinned());
		h.i(s->HasNormals());
		h.i(s->HasTangents());
		h.i(s->HasVertexColors());
		h.i(s->HasUVs());
		auto b = s->GetBounds();
		hv3(h, b.center); h.f(b.radius);
		MARK("shape:" + s->name.get() + ":basic");
		bid(nif.GetShader(s));
		bid(nif.GetMaterialProperty(s));
		bid(nif.GetStencilProperty(s));
		bid(nif.GetTexturingProperty(s));
		bid(nif.GetAlphaProperty(s));
		bid(nif.GetGeometryData(s));
		bid(nif.GetParentNode(s));
		bid(nif.GetBinaryTangentData(s));
		{
			std::vector<Vector3> t, bt;
			nif.GetBinaryTangentData(s, &t, &bt);
			hvec(h, &t, hv3);
			hvec(h, &bt, hv3);
		}
		MARK("shape:" + s->name.get() + ":refs+tangentdata");
		h.i(nif.IsSSECompatible(s));
		for (auto& r : nif.GetTexturePathRefs(s)) h.str(r.get());
		for (uint32_t slot = 0; slot < 10; slot++) {
			std::string tex;
			h.i(nif.GetTextureSlot(s, tex, slot));
			h.str(tex);
		}
		for (auto& r : nif.GetExternalGeometryPathRefs(s)) h.str(r.get());

		MARK("shape:" + s->name.get() + ":textures");
		hvec(h, nif.GetVertsForShape(s), hv3);
		MARK("shape:" + s->name.get() + ":verts");
		hvec(h, nif.GetNormalsForShape(s), hv3);
		MARK("shape:" + s->name.get() + ":normals");
		hvec(h, nif.GetUvsForShape(s), [](Hash64& hh, const Vector2& u) { hh.f(u.u); hh.f(u.v); });
		hvec(h, nif.GetColorsForShape(s), [](Hash64& hh, const Color4& c) { hh.f(c.r); hh.f(c.g); hh.f(c.b); hh.f(c.a); });
		hvec(h, nif.GetTangentsForShape(s), hv3);
		hvec(h, nif.GetBitangentsForShape(s), hv3);
		hvec(h, nif.GetEyeDataForShape(s), [](Hash64& hh, float f) { hh.f(f); });
		{
			std::vector<Vector3> v;
			h.i(nif.GetVertsForShape(s, v)); hvec(h, &v, hv3);
			std::vector<Vector2> uv;
			h.i(nif.GetUvsForShape(s, uv)); h.i((long long) uv.size());
			std::vector<Color4> c;
			h.i(nif.GetColorsForShape(s, c)); h.i((long long) c.size());
			std::vector<Vector3> t;
			h.i(nif.GetTangentsForShape(s, t)); h.i((long long) t.size());
			h.i(nif.GetBitangentsForShape(s, t)); h.i((long long) t.size());
			std::vector<float> e;
			h.i(NifFile::GetEyeDataForShape(s, e)); h.i((long long) e.size());
			std::vector<Triangle> tris;
			h.i(s->GetTriangles(tris));
			h.i((long long) tris.size());
			for (auto& t3 : tris) { h.i(t3.p1); h.i(t3.p2); h.i(t3.p3); }
		}
		MARK("shape:" + s->name.get() + ":geometry");
		// skin
		setStage("battery:skin");
		std::vector<std::string> bones;
		h.i(nif.GetShapeBoneList(s, bones));
		for (auto& bn : bones) h.str(bn);
		std::vector<int> ids;
		h.i(nif.GetShapeBoneIDList(s, ids));
		for (auto i : ids) h.i(i);
		MatTransform x;
		h.i(nif.CalcShapeTransformGlobalToSkin(s, x)); hxf(h, x);
		x = MatTransform();
		h.i(nif.GetShapeTransformGlobalToSkin(s, x)); hxf(h, x);
		x = MatTransform();
		h.i(nif.GetShapeBoneTransform(s, 0xFFFFFFFFu, x)); hxf(h, x);
		size_t nBones = bones.size();
		std::vector<uint32_t> boneIdx;
		for (size_t i = 0; i < nBones; i++)
			if (!big || nBones <= 8 || i + 1 == nBones || pick.below(uint32_t(nBones)) < 6) boneIdx.push_back(uint32_t(i));
		boneIdx.push_back(uint32_t(nBones));       // one past the end
		boneIdx.push_back(uint32_t(nBones) + 7);
		for (auto bi : boneIdx) {
			std::unordered_map<uint16_t, float> w;
			h.i(nif.GetShapeBoneWeights(s, bi, w));
			// order-independent fold
			uint64_t acc = 0;
			for (auto& kv : w) { Hash64 e; e.i(kv.first); e.f(kv.second); acc += e.h; }
			h.u64(acc);
			MatTransform bx;
			h.i(nif.GetShapeTransformSkinToBone(s, bi, bx)); hxf(h, bx);
			bx = MatTransform();
			h.i(nif.GetShapeBoneTransform(s, bi, bx)); hxf(h, bx);
			BoundingSphere bs;
			h.i(nif.GetShapeBoneBounds(s, bi, bs)); hv3(h, bs.center); h.f(bs.radius);
		}
		if (!bones.empty()) {
			MatTransform bx;
			h.i(nif.GetShapeTransformSkinToBone(s, bones[0], bx)); hxf(h, bx);
			bx = MatTransform();
			h.i(nif.GetShapeBoneTransform(s, bones.back(), bx)); hxf(h, bx);
		}
		{
			MatTransform bx;
			h.i(nif.GetShapeTransformSkinToBone(s, std::string("__no_such_bone__"), bx));
		}
		MARK("shape:" + s->name.get() + ":skin");
		setStage("battery:parts");
		NiVector<BSDismemberSkinInstance::PartitionInfo> pi;
		std::vector<int> tp;
		h.i(nif.GetShapePartitions(s, pi, tp));
		h.i((long long) pi.size());
		for (auto& p : pi) { h.i(p.flags); h.i(p.partID); }
		for (auto v : tp) h.i(v);
		NifSegmentationInfo inf;
		std::vector<int> ts;
		h.i(NifFile::GetShapeSegments(s, inf, ts));
		h.str(inf.ssfFile);
		h.i((long long) inf.segs.size());
		for (auto& sg : inf.segs) {
			h.i(sg.partID);
			h.i((long long) sg.subs.size());
			for (auto& sb : sg.subs) { h.i(sb.partID); h.i(sb.userSlotID); h.i(sb.material); h.i((long long) sb.extraData.size()); }
		}
		for (auto v : ts) h.i(v);
	}

	MARK("shapes-done");
	setStage("battery:tree");
	{
		std::vector<NiObject*> tree;
		nif.GetTree(tree);
		h.i((long long) tree.size());
		for (auto o : tree) bid(o);
	}
	MARK("tree");
	setStage("battery:nodes");
	for (size_t ni = 0; ni < nodes.size(); ni++) {
		if (!take(ni, nodes.size())) continue;
		NiNode* nd = nodes[ni];
		h.tag("node");
		const std::string& nm = nd->name.get();
		h.str(nm);
		MatTransform x;
		h.i(nif.GetNodeTransformToParent(nm, x)); hxf(h, x);
		x = MatTransform();
		setStage("battery:toGlobal");
		h.i(nif.GetNodeTransformToGlobal(nm, x)); hxf(h, x);
		setStage("battery:nodes");
		bid(nif.GetParentNode(nd));
		h.i(NifFile::CanDeleteNode(nd));
		h.i(nif.CanDeleteNode(nm));
		for (auto c : nif.GetChildren<NiAVObject>(nd, false)) bid(c);
		for (auto c : nif.GetChildren<NiObject>(nd, true)) bid(c);
		bid(nif.FindBlockByName<NiNode>(nm));
		h.str(nif.GetNodeName(nif.GetBlockID(nd)));
	}
	{
		MatTransform x;
		h.i(nif.GetNodeTransformToGlobal("__no_such_node__", x));
		h.i(nif.GetNodeTransformToParent("__no_such_node__", x));
		h.i(nif.CanDeleteNode("__no_such_node__"));
		bid(nif.FindBlockByName<NiAVObject>("__no_such_node__"));
		h.str(nif.GetNodeName(nb));
		h.str(nif.GetNodeName(0));
		for (auto c : nif.GetChildren<NiNode>(nullptr, true)) bid(c);
	}
	MARK("nodes");
	setStage("battery:header");
	if (headerTables) {
	h.i(hdr.GetStringCount());
	for (uint32_t i = 0; i < nb && i < 400; i++) {
		h.str(hdr.GetBlockTypeStringById(i));
		h.i(hdr.GetBlockTypeIndex(i));
	}
	h.str(hdr.GetBlockTypeStringById(nb));
	h.i(hdr.GetBlockTypeIndex(nb));
	h.i(hdr.GetBlockSize(nb));
	h.str(hdr.GetStringById(hdr.GetStringCount()));
	h.i(hdr.FindStringId("__no_such_string__"));
	}
	else {
		for (uint32_t i = 0; i < nb && i < 400; i++) h.str(hdr.GetBlockTypeStringById(i));
	}
	MARK("header");
	h.i(hdr.GetBlock<NiObject>(nb) != nullptr);
	h.i(hdr.GetBlock<NiObject>(NIF_NPOS) != nullptr);
	setStage("battery:done");
	ctx.steps++;
	return h.h;
}

} // namespace sim
