// nifsim — what the reference-build copy of the harness code (core.cpp, gen.cpp under -Dsim=sim_ref) needs from main.cpp
#include "sim.hpp"
namespace sim {
Progress* g_progress = nullptr;
void setStage(const char*) {}
std::string hex64(uint64_t v) { char b[20]; snprintf(b, sizeof b, "%016llx", (unsigned long long) v); return b; }
void Ctx::checkUbsan(const char*) {}
}
