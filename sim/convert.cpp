// nifsim — C12: LE <-> SE conversion preserves geometry and skinning and yields a valid file
// (convert / restart / convert back / restart histories against the mesh model).
#include "models.hpp"
#include <cmath>

namespace sim {

struct ConvSnap {
	ShapeSnap s;
	std::string shaderType, parentName;
	std::vector<std::string> textures;
	bool modelSpace = false;
	uint64_t posKey = 0;
	bool hasSkinData = false;
	std::vector<std::map<uint16_t, float>> skinDataWeights; // per bone, straight from NiSkinData (SE files keep weights in two places)
};

static bool ctx_probe_strips = false;
static std::vector<ConvSnap> captureAll(NifFile& nif) {
	std::vector<ConvSnap> v;
	for (auto sh : nif.GetShapes()) {
		ConvSnap c;
		c.s = snapShape(nif, sh);
		if (c.s.isStrips) { c.s.tris = c.s.stripTris; ctx_probe_strips = true; } // triangles of a strips shape: expanded by the harness, not by the library
		if (auto shader = nif.GetShader(sh)) { c.shaderType = shader->GetBlockName(); c.modelSpace = shader->IsModelSpace(); }
		if (auto p = nif.GetParentNode(sh)) c.parentName = p->name.get();
		for (auto& r : nif.GetTexturePathRefs(sh)) c.textures.push_back(r.get());
		if (sh->SkinInstanceRef())
			if (auto si = nif.GetHeader().GetBlock<NiSkinInstance>(sh->SkinInstanceRef()))
				if (auto sd = nif.GetHeader().GetBlock(si->dataRef)) {
					c.hasSkinData = true;
					for (auto& b : sd->bones) {
						std::map<uint16_t, float> m;
						for (auto& w : b.vertexWeights) m[w.index] += w.weight;
						c.skinDataWeights.push_back(m);
					}
				}
		Hash64 h;
		h.i(c.s.nv);
		for (auto& p : c.s.verts) { h.f(p.x); h.f(p.y); h.f(p.z); }
		c.posKey = h.h;
		v.push_back(c);
	}
	return v;
}

static float halfTol(float x) { return std::fabs(x) / 1024.0f + 6.2e-8f; }

// per-vertex weight maps (bone name -> weight) from the per-bone lists the API reports
static std::vector<std::map<std::string, float>> perVertexWeights(const ShapeSnap& s) {
	std::vector<std::map<std::string, float>> out(s.nv);
	for (size_t b = 0; b < s.boneWeights.size() && b < s.bones.size(); b++)
		for (auto& kv : s.boneWeights[b])
			if (kv.first < s.nv) out[kv.first][s.bones[b]] += kv.second;
	return out;
}

static void compareConverted(const ConvSnap& b, const ConvSnap& a, Ctx& ctx, const std::string& where, const OptResult& res, bool reduceTop4, bool weightsComparable, bool fromSkinData = false) {
	auto fail = [&](const std::string& cls, const std::string& m) { ctx.viol(cls, where + " [" + b.s.type + " '" + b.s.name + "' -> " + a.s.type + " '" + a.s.name + "']: " + m); };
	size_t at = 0;
	if (a.s.nv != b.s.nv) fail("conv:vertex-count", std::to_string(a.s.nv) + " vertices, before " + std::to_string(b.s.nv));
	if (!sameV3(a.s.verts, b.s.verts, 0, &at)) fail("conv:positions", "vertex positions are not bit-exact (first at " + std::to_string((long) at) + ")");
	{
		std::multiset<TriKey> ta, tb;
		for (auto& t : a.s.tris) ta.insert(canonTri(t));
		for (auto& t : b.s.tris) tb.insert(canonTri(t));
		if (ta != tb) fail("conv:triangles", "triangle set differs (" + std::to_string(ta.size()) + " vs " + std::to_string(tb.size()) + ")");
	}
	if (b.s.hasUV) {
		if (a.s.uvs.size() != b.s.uvs.size()) fail("conv:uv-count", "UV count " + std::to_string(a.s.uvs.size()) + " vs " + std::to_string(b.s.uvs.size()));
		for (size_t i = 0; i < b.s.uvs.size(); i++)
			if (std::fabs(a.s.uvs[i].u - b.s.uvs[i].u) > halfTol(b.s.uvs[i].u) || std::fabs(a.s.uvs[i].v - b.s.uvs[i].v) > halfTol(b.s.uvs[i].v))
				fail("conv:uv-value", "UV of vertex " + std::to_string(i) + " is (" + std::to_string(a.s.uvs[i].u) + "," + std::to_string(a.s.uvs[i].v) + "), before (" + std::to_string(b.s.uvs[i].u) + "," + std::to_string(b.s.uvs[i].v) + ")");
	}
	// the result lists shapes by the name they have after the conversion (sibling duplicates are renamed first; shapes under
	// different parents may still share a name, so the list alone does not identify a shape)
	bool listed = std::find(res.shapesVColorsRemoved.begin(), res.shapesVColorsRemoved.end(), a.s.name) != res.shapesVColorsRemoved.end();
	bool colorsRemoved = b.s.hasC && !a.s.hasC && listed;
	if (colorsRemoved) {
		// documented: the colour channel is dropped only if every colour is opaque white (0xFFFFFFFF)
		ctx.probe("conversion_removed_vertex_colours");
		for (size_t i = 0; i < b.s.colors.size(); i++) {
			auto& y = b.s.colors[i];
			if (y.r != 1.0f || y.g != 1.0f || y.b != 1.0f || y.a != 1.0f) {
				fail("conv:colours-dropped", "the conversion removed the vertex colours although vertex " + std::to_string(i) + " is (" + std::to_string(y.r) + "," + std::to_string(y.g) + "," + std::to_string(y.b) + "," + std::to_string(y.a) + "), not opaque white");
				break;
			}
		}
	}
	if (b.s.hasC && !colorsRemoved) {
		if (a.s.colors.size() != b.s.colors.size()) fail("conv:colour-count", "vertex colours " + std::to_string(a.s.colors.size()) + " vs " + std::to_string(b.s.colors.size()));
		const float tol = 1.0f / 255.0f + 1.0f / 256.0f;
		for (size_t i = 0; i < b.s.colors.size(); i++) {
			auto &x = a.s.colors[i], &y = b.s.colors[i];
			auto cl = [](float f) { return std::max(0.0f, std::min(1.0f, f)); };
			if (std::fabs(x.r - cl(y.r)) > tol || std::fabs(x.g - cl(y.g)) > tol || std::fabs(x.b - cl(y.b)) > tol || std::fabs(x.a - cl(y.a)) > tol)
				fail("conv:colour-value", "colour of vertex " + std::to_string(i) + " changed beyond storage precision");
		}
	}
	if (a.s.bones != b.s.bones) fail("conv:bone-list", "bone list differs (" + std::to_string(a.s.bones.size()) + " vs " + std::to_string(b.s.bones.size()) + ")");
	if (b.s.skinned && weightsComparable) {
		// SE -> LE takes the weights from NiSkinData (an SE model keeps them there and per vertex); LE -> SE and restarts are
		// compared through what the API reports
		ShapeSnap src = b.s;
		if (fromSkinData && b.hasSkinData) {
			bool skinDataEmpty = true;
			for (auto& m : b.skinDataWeights) if (!m.empty()) skinDataEmpty = false;
			// if NiSkinData carries no weights at all, the per-vertex weights are the only ones the model has: they must survive
			if (!skinDataEmpty) src.boneWeights = b.skinDataWeights;
			else ctx.probe("se_model_with_weights_only_per_vertex");
		}
		auto wb = perVertexWeights(src), wa = perVertexWeights(a.s);
		std::vector<char> used(b.s.nv, 0);
		for (auto& t : b.s.tris) { if (t.p1 < used.size()) used[t.p1] = 1; if (t.p2 < used.size()) used[t.p2] = 1; if (t.p3 < used.size()) used[t.p3] = 1; }
		for (size_t v = 0; v < wb.size() && v < wa.size(); v++) {
			if (!used[v]) continue; // a vertex no triangle uses is in no partition; LE files keep per-vertex weights only there
			// expected: the four largest source influences, renormalised
			std::vector<std::pair<float, std::string>> inf;
			for (auto& kv : wb[v]) inf.push_back({kv.second, kv.first});
			std::sort(inf.begin(), inf.end(), [](auto& x, auto& y) { return x.first > y.first; });
			if (reduceTop4) {
				if (inf.size() > 4 && std::fabs(inf[3].first - inf[4].first) < 1e-6f) continue; // tie at the cut: either choice is legitimate
				if (inf.size() > 4) inf.resize(4);
			}
			float sum = 0;
			for (auto& p : inf) sum += p.first;
			std::map<std::string, float> want;
			if (sum > 0) for (auto& p : inf) want[p.second] = p.first / sum;
			for (auto& kv : want) {
				float got = wa[v].count(kv.first) ? wa[v][kv.first] : 0.0f;
				if (std::fabs(got - kv.second) > 2e-3f) fail("conv:weight-value", "vertex " + std::to_string(v) + " weight for bone '" + kv.first + "' is " + std::to_string(got) + ", expected " + std::to_string(kv.second));
			}
			for (auto& kv : wa[v])
				if (!want.count(kv.first) && kv.second > 2e-3f) fail("conv:weight-extra", "vertex " + std::to_string(v) + " gained an influence of bone '" + kv.first + "' (" + std::to_string(kv.second) + ")");
		}
		ctx.probe("weights_compared");
	}
	if (a.shaderType != b.shaderType) fail("conv:shader", "shader is a " + a.shaderType + ", before " + b.shaderType);
	if (a.parentName != b.parentName) fail("conv:parent-node", "parent node is '" + a.parentName + "', before '" + b.parentName + "'");
}

// "each vertex's bone weights" also live in the partitions (per partition vertex: four weights and four slots into the
// partition's bone list): every influence a partition stores for a vertex must be an influence the shape reports for it
static void checkPartitionInfluences(NifFile& nif, NiShape* shape, Ctx& ctx, const std::string& where0) {
	auto& hdr = nif.GetHeader();
	auto si = hdr.GetBlock<NiSkinInstance>(shape->SkinInstanceRef());
	if (!si) return;
	auto sp = hdr.GetBlock(si->skinPartitionRef);
	if (!sp) return;
	std::string where = where0 + " [" + shape->GetBlockName() + " '" + shape->name.get() + "']";
	uint32_t nbones = si->boneRefs.GetSize();
	std::vector<std::unordered_map<uint16_t, float>> w(nbones);
	for (uint32_t b = 0; b < nbones; b++) nif.GetShapeBoneWeights(shape, b, w[b]);
	size_t pi = 0;
	for (auto& p : sp->partitions) {
		size_t n = std::min(p.vertexWeights.size(), std::min(p.boneIndices.size(), p.vertexMap.size()));
		for (size_t i = 0; i < n; i++) {
			uint16_t v = p.vertexMap[i];
			bool any = false;
			for (uint32_t b = 0; b < nbones && !any; b++) any = w[b].count(v) > 0;
			if (!any) continue;
			const float ws[4] = {p.vertexWeights[i].w1, p.vertexWeights[i].w2, p.vertexWeights[i].w3, p.vertexWeights[i].w4};
			const uint8_t sl[4] = {p.boneIndices[i].i1, p.boneIndices[i].i2, p.boneIndices[i].i3, p.boneIndices[i].i4};
			for (int k = 0; k < 4; k++) {
				if (ws[k] <= 2e-3f) continue;
				if (sl[k] >= p.bones.size()) continue; // (range is C10's subject)
				uint16_t bone = p.bones[sl[k]];
				if (bone >= nbones || !w[bone].count(v))
					ctx.viol("conv:partition-influence", where + ": partition " + std::to_string(pi) + " stores weight " + std::to_string(ws[k]) + " of bone " + std::to_string(bone) + " for vertex " + std::to_string(v) + ", the shape reports no influence of that bone on the vertex");
			}
		}
		pi++;
	}
	ctx.probe("partition_influences_checked");
}

void profile_convert(const json& plan, Ctx& ctx) {
	auto nif = std::make_unique<NifFile>();
	setStage("init");
	if (!makeInitial(plan["init"], *nif, ctx)) { ctx.info["rejected_init"] = true; ctx.probe("rejected_input"); return; }
	auto& v0 = nif->GetHeader().GetVersion();
	if (!(v0.IsSK() || v0.IsSSE())) { ctx.info["rejected_init"] = true; return; }
	ctx.sig.str(plan["init"].dump());
	// unobserved source: the model that gets converted has not been queried at all (queries fill the partition caches the
	// conversion would otherwise have to build); what it looked like is observed on a twin built from the same specification
	const bool unobserved = jbool(plan, "unobserved_source", false);
	std::vector<ConvSnap> original;
	if (unobserved) {
		NifFile twin;
		Ctx scratch;
		scratch.property = ctx.property;
		if (!makeInitial(plan["init"], twin, scratch)) { ctx.info["rejected_init"] = true; return; }
		original = captureAll(twin);
		ctx.probe("source_observed_on_a_twin");
	}
	else original = captureAll(*nif);
	int stepNo = 0;
	for (auto& st : plan["steps"]) {
		if (g_progress) g_progress->step = stepNo;
		std::string op = jstr(st, "op");
		std::string where = "step " + std::to_string(stepNo) + " " + op;
		setStage(op.c_str());
		ctx.hist.tag(op.c_str());
		ctx.steps++;
		if (op == "Convert") {
			auto& ver = nif->GetHeader().GetVersion();
			bool toSSE = ver.IsSK();
			std::vector<ConvSnap> before = (unobserved && stepNo == 0) ? original : captureAll(*nif);
			if (toSSE)
				for (auto sh : nif->GetShapes())
					if (auto si = nif->GetHeader().GetBlock<NiSkinInstance>(sh->SkinInstanceRef()))
						if (auto sp = nif->GetHeader().GetBlock(si->skinPartitionRef))
							for (auto& pb : sp->partitions)
								if (pb.numBones > 80) { ctx.probe("le_partition_with_more_than_80_bones"); break; }
			if (ctx_probe_strips) ctx.probe("strips_expanded_independently");
			// weights live in two places in SE files and in one in LE files; they are compared when the source is consistent
			bool comparable = true;
			OptOptions o;
			o.targetVersion = toSSE ? NiVersion::getSSE() : NiVersion::getSK();
			o.headParts = jbool(st, "headParts", false);
			o.removeParallax = jbool(st, "removeParallax", true);
			o.calcBounds = jbool(st, "calcBounds", true);
			o.fixBSXFlags = jbool(st, "fixBSXFlags", true);
			o.fixShaderFlags = jbool(st, "fixShaderFlags", true);
			setStage("Convert:call");
			OptResult res = nif->OptimizeFor(o);
			setStage("Convert:compare");
			if (res.versionMismatch) ctx.viol("conv:version-mismatch-reported", where + ": OptimizeFor reports a version mismatch for an LE/SE model");
			ctx.sig.tag("conv"); ctx.sig.i(toSSE); ctx.sig.i(o.headParts); ctx.sig.i(o.removeParallax); ctx.sig.i(o.calcBounds);
			ctx.nontrivial = true;
			ctx.probe(toSSE ? "converted_to_SE" : "converted_to_LE");
			if (res.dupesRenamed) ctx.probe("duplicate_names_renamed");
			if (!res.shapesPartTriangulated.empty()) ctx.probe("partitions_triangulated");
			if (!res.shapesNormalsRemoved.empty()) ctx.probe("model_space_normals_removed");
			auto& nver = nif->GetHeader().GetVersion();
			if (toSSE ? !nver.IsSSE() : !nver.IsSK()) ctx.viol("conv:target-version", where + ": the model is not in the target version after conversion");
			std::vector<ConvSnap> after = captureAll(*nif);
			if (after.size() != before.size()) ctx.viol("conv:shape-count", where + ": " + std::to_string(after.size()) + " shapes, before " + std::to_string(before.size()));
			// match shapes by their (bit-exact) positions
			std::map<uint64_t, std::vector<size_t>> byKey;
			for (size_t i = 0; i < after.size(); i++) byKey[after[i].posKey].push_back(i);
			for (auto& b : before) {
				if (b.s.nv == 0) continue;
				auto it = byKey.find(b.posKey);
				if (it == byKey.end() || it->second.empty()) ctx.viol("conv:positions", where + " [" + b.s.type + " '" + b.s.name + "']: no shape with these vertex positions exists after conversion");
				size_t ai = it->second.front();
				it->second.erase(it->second.begin());
				compareConverted(b, after[ai], ctx, where, res, toSSE, comparable, !toSSE);
			}
			// sibling shapes have pairwise distinct names
			{
				std::map<std::string, std::set<std::string>> seen;
				for (auto& a : after) {
					if (a.s.name.empty()) continue;
					if (!seen[a.parentName].insert(a.s.name).second) ctx.viol("conv:duplicate-sibling-names", where + ": two sibling shapes under '" + a.parentName + "' are both named '" + a.s.name + "'");
				}
			}
			for (auto s : nif->GetShapes()) {
				checkShapeIndices(*nif, s, ctx, where);
				if (s->IsSkinned()) { checkPartitions(*nif, s, ctx, where, true); checkPartitionInfluences(*nif, s, ctx, where); }
			}
		}
		else if (op == "Restart") {
			std::vector<ConvSnap> before = captureAll(*nif);
			SaveSpec sp;
			sp.raw = jbool(st, "raw", true);
			SaveOut so = saveNif(*nif, sp);
			ctx.hist.str(so.bytes);
			auto fresh = restartObject(nif, ctx);
			if (loadNif(*fresh, so.bytes).rc != 0) ctx.viol("conv:converted-file-not-loadable", where + ": the converted model does not reload");
			nif = std::move(fresh);
			ctx.fault("F-RESTART");
			ctx.sig.tag("restart");
			std::vector<ConvSnap> after = captureAll(*nif);
			if (after.size() != before.size()) ctx.viol("conv:restart-shape-count", where);
			std::map<uint64_t, std::vector<size_t>> byKey;
			for (size_t i = 0; i < after.size(); i++) byKey[after[i].posKey].push_back(i);
			OptResult none;
			for (auto& b : before) {
				if (b.s.nv == 0) continue;
				auto it = byKey.find(b.posKey);
				if (it == byKey.end() || it->second.empty()) ctx.viol("conv:restart-positions", where + " ['" + b.s.name + "']: positions changed by save and reload");
				size_t ai = it->second.front();
				it->second.erase(it->second.begin());
				compareConverted(b, after[ai], ctx, where + " (reloaded)", none, false, true);
			}
			for (auto s : nif->GetShapes()) {
				checkShapeIndices(*nif, s, ctx, where + " (reloaded)");
				if (s->IsSkinned()) checkPartitions(*nif, s, ctx, where + " (reloaded)", true);
			}
		}
		stepNo++;
	}
	// there and back: equivalent geometry relative to the original
	if (jbool(plan, "compare_with_original", true)) {
		auto& ver = nif->GetHeader().GetVersion();
		bool sameVersion = (ver.IsSK() && v0.IsSK()) || (ver.IsSSE() && v0.IsSSE());
		(void) sameVersion;
		std::vector<ConvSnap> fin = captureAll(*nif);
		std::map<uint64_t, std::vector<size_t>> byKey;
		for (size_t i = 0; i < fin.size(); i++) byKey[fin[i].posKey].push_back(i);
		for (auto& b : original) {
			if (b.s.nv == 0) continue;
			auto it = byKey.find(b.posKey);
			if (it == byKey.end() || it->second.empty()) ctx.viol("conv:there-and-back-positions", "[" + b.s.type + " '" + b.s.name + "']: no shape with the original vertex positions exists at the end");
			size_t ai = it->second.front();
			it->second.erase(it->second.begin());
			const ConvSnap& a = fin[ai];
			std::multiset<TriKey> ta, tb;
			for (auto& t : a.s.tris) ta.insert(canonTri(t));
			for (auto& t : b.s.tris) tb.insert(canonTri(t));
			if (ta != tb) ctx.viol("conv:there-and-back-triangles", "['" + b.s.name + "']: triangle set differs from the original");
			if (a.s.bones != b.s.bones) ctx.viol("conv:there-and-back-bones", "['" + b.s.name + "']: bone list differs from the original");
		}
		ctx.probe("compared_with_original");
	}
	setStage("dtor");
}

} // namespace sim
