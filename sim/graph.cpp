// nifsim — block-graph histories against an executable graph model:
// C06 (add / delete / replace / reorder / delete-by-type / prune keep references on target) and
// C04 (default save only permutes and prunes). Block identity is the NiObject address: blocks are
// moved between slots, never re-allocated, by the operations under test.
#include "sim.hpp"
#include "edits.hpp"

namespace sim {

std::unique_ptr<NiObject> synthBlock(NiHeader& hdr, const std::string& type, uint64_t seed, std::vector<std::pair<NiRef*, std::string>>* refsOut);
bool classDerivesFromPublic(const std::string& blockType, const std::string& base);
void checkWrittenFile(NifFile& nif, const std::string& bytes, const WriteMap& wm, Ctx& ctx, const std::string& where, const std::string& classSuffix = "");

static std::string typeNameOf(NiHeader& hdr, uint32_t i) {
	auto o = hdr.GetBlock<NiObject>(i);
	if (!o) return "<null>";
	if (dynamic_cast<NiUnknown*>(o)) return hdr.GetBlockTypeStringById(i);
	return o->GetBlockName();
}

struct GModel {
	std::vector<NiObject*> order;
	std::map<NiObject*, std::vector<std::pair<NiRef*, NiObject*>>> refs; // owner -> (ref object, target or null)
};
static NiObject* const DANGLING = reinterpret_cast<NiObject*>(uintptr_t(1));

static long serialisedOnly = 0;
static GModel captureModel(NifFile& nif) {
	GModel m;
	auto& hdr = nif.GetHeader();
	uint32_t nb = hdr.GetNumBlocks();
	for (uint32_t i = 0; i < nb; i++) m.order.push_back(hdr.GetBlock<NiObject>(i));
	for (auto o : m.order) {
		if (!o) continue;
		// every reference the block serialises (hook H2), whether or not the block enumerates it: a reference the
		// notifications cannot reach drifts off its target at the first deletion or reorder. Serialised first: writing
		// brings fixed-size lists to their size (constraint entities), which invalidates pointers taken before.
		std::set<NiRef*> ser;
		if (!dynamic_cast<NiUnknown*>(o)) {
			WriteMap wm;
			putBlock(hdr, o, &wm);
			for (auto& sr : wm.refs) ser.insert(sr.ref);
		}
		std::set<NiRef*> rs;
		o->GetChildRefs(rs);
		std::set<NiRef*> ps;
		o->GetPtrs(ps);
		rs.insert(ps.begin(), ps.end());
		for (auto r : ser)
			if (rs.insert(r).second) serialisedOnly++;
		auto& v = m.refs[o];
		for (auto r : rs) v.push_back({r, r->IsEmpty() ? nullptr : (r->index < nb ? m.order[r->index] : DANGLING)});
	}
	return m;
}

static void compareModel(NifFile& nif, const GModel& want, Ctx& ctx, const std::string& where) {
	auto& hdr = nif.GetHeader();
	uint32_t nb = hdr.GetNumBlocks();
	auto fail = [&](const std::string& cls, const std::string& m) { ctx.viol(cls, where + ": " + m); };
	if (nb != want.order.size()) fail("graph:block-count", "GetNumBlocks=" + std::to_string(nb) + ", model expects " + std::to_string(want.order.size()));
	std::set<NiObject*> seen;
	for (uint32_t i = 0; i < nb; i++) {
		auto o = hdr.GetBlock<NiObject>(i);
		if (!o) fail("graph:empty-slot", "slot " + std::to_string(i) + " holds no block");
		if (!seen.insert(o).second) fail("graph:block-twice", "slot " + std::to_string(i) + " holds a block that is also in another slot");
		if (o != want.order[i]) fail("graph:wrong-block-at-index", "slot " + std::to_string(i) + " holds a " + std::string(o->GetBlockName()) + ", the model expects a " + (want.order[i] ? want.order[i]->GetBlockName() : "?"));
		if (!dynamic_cast<NiUnknown*>(o) && hdr.GetBlockTypeStringById(i) != o->GetBlockName())
			fail("graph:header-type-name", "header calls block " + std::to_string(i) + " '" + hdr.GetBlockTypeStringById(i) + "', it is a " + o->GetBlockName());
	}
	for (auto& kv : want.refs) {
		if (!seen.count(kv.first)) continue;
		for (auto& rt : kv.second) {
			NiRef* r = rt.first;
			NiObject* expect = rt.second;
			NiObject* got = r->IsEmpty() ? nullptr : (r->index < nb ? hdr.GetBlock<NiObject>(r->index) : DANGLING);
			if (got != expect) {
				auto nm = [&](NiObject* x) { return x == nullptr ? std::string("nothing") : x == DANGLING ? std::string("an index beyond the block list") : std::string(x->GetBlockName()) + "@" + std::to_string(nif.GetBlockID(x)); };
				fail("graph:reference-moved", "a reference of the " + std::string(kv.first->GetBlockName()) + " in slot " + std::to_string(nif.GetBlockID(kv.first)) + " designates " + nm(got) + ", the model expects " + nm(expect));
			}
		}
	}
}

static bool isCachedGeomData(NifFile& nif, NiObject* o) {
	// NiGeometry caches a raw pointer to its data block; deleting that block through the header dangles the
	// cache inside the same model (real, but no property speaks about it): such targets are not chosen
	if (!dynamic_cast<NiGeometryData*>(o)) return false;
	uint32_t id = nif.GetBlockID(o);
	for (auto s : nif.GetShapes())
		if (s->DataRef() && s->DataRef()->index == id) return true;
	return false;
}

void profile_blockedit(const json& plan, Ctx& ctx) {
	auto nif = std::make_unique<NifFile>();
	setStage("init");
	if (!makeInitial(plan["init"], *nif, ctx)) { ctx.info["rejected_init"] = true; ctx.probe("rejected_input"); return; }
	ctx.sig.str(plan["init"].dump());
	auto& types = allBlockTypes();
	int stepNo = 0;
	for (auto& st : plan["steps"]) {
		if (g_progress) g_progress->step = stepNo;
		std::string op = jstr(st, "op");
		std::string where = "step " + std::to_string(stepNo) + " " + op;
		setStage(op.c_str());
		ctx.hist.tag(op.c_str());
		ctx.steps++;
		auto& hdr = nif->GetHeader();
		uint32_t nb = hdr.GetNumBlocks();
		GModel m = captureModel(*nif);
		uint64_t sel = ju64(st, "block", 0);
		if (op == "AddBlock" || op == "ReplaceBlock") {
			std::string type = types[ju64(st, "type", 0) % types.size()];
			if (op == "ReplaceBlock" && jbool(st, "same_type", false) && nb >= 2) {
				std::string cur = typeNameOf(hdr, 1 + uint32_t(sel % (nb - 1)));
				if (std::find(types.begin(), types.end(), cur) != types.end()) { type = cur; ctx.probe("op_replace_same_type"); }
			}
			std::vector<std::pair<NiRef*, std::string>> refs;
			setStage(("synth:" + op).c_str()); // a fault of the generating read is a rejected input
			auto obj = synthBlock(hdr, type, ju64(st, "seed", 1), &refs);
			setStage(op.c_str());
			if (!obj) { stepNo++; continue; }
			NiObject* raw = obj.get();
			Rng r(ju64(st, "wire", 1) * 7919 + 3);
			uint32_t idx = nb;
			if (op == "ReplaceBlock") {
				if (nb < 2) { stepNo++; continue; }
				idx = 1 + uint32_t(sel % (nb - 1));
				if (isCachedGeomData(*nif, m.order[idx]) || (nif->HasUnknown())) { stepNo++; continue; }
			}
			// point the serialised references of the new block at existing blocks (type-fitting when possible)
			std::vector<std::pair<NiRef*, NiObject*>> wired;
			for (auto& rf : refs) {
				uint32_t v = NIF_NPOS;
				if (nb > 0 && r.chance(0.75)) {
					std::vector<uint32_t> fit;
					for (uint32_t j = 0; j < nb; j++)
						if (classDerivesFromPublic(typeNameOf(hdr, j), rf.second)) fit.push_back(j);
					v = (!fit.empty() && r.chance(0.8)) ? fit[r.below(uint32_t(fit.size()))] : r.below(nb);
				}
				rf.first->index = v;
			}
			if (op == "AddBlock") {
				uint32_t id = hdr.AddBlock(std::move(obj));
				if (id != nb) ctx.viol("graph:add-returned-wrong-id", where + ": AddBlock returned " + std::to_string(id) + " with " + std::to_string(nb) + " blocks before");
				m.order.push_back(raw);
				ctx.probe("op_add");
			}
			else {
				NiObject* old = m.order[idx];
				hdr.ReplaceBlock(idx, std::move(obj));
				m.refs.erase(old);
				for (auto& kv : m.refs)
					for (auto& rt : kv.second)
						if (rt.second == old) rt.second = raw; // same slot, now the replacement
				m.order[idx] = raw;
				ctx.probe("op_replace");
			}
			// expected targets of the new block's references (resolved against the order after the operation)
			{
				std::set<NiRef*> rs;
				raw->GetChildRefs(rs);
				std::set<NiRef*> ps;
				raw->GetPtrs(ps);
				rs.insert(ps.begin(), ps.end());
				auto& v = m.refs[raw];
				v.clear();
				for (auto rr : rs) v.push_back({rr, rr->IsEmpty() ? nullptr : (rr->index < m.order.size() ? m.order[rr->index] : DANGLING)});
			}
			ctx.sig.tag(op.c_str()); ctx.sig.str(type);
			ctx.nontrivial = true;
		}
		else if (op == "DeleteBlock") {
			if (nb < 2) { stepNo++; continue; }
			uint32_t idx = 1 + uint32_t(sel % (nb - 1));
			NiObject* x = m.order[idx];
			if (isCachedGeomData(*nif, x)) { stepNo++; continue; }
			// the NiRef overload, called the way the library's own helpers call it: with a reference that lives inside a block
			NiRef* via = nullptr;
			if (jbool(st, "via_ref", false)) {
				std::vector<NiRef*> holders;
				for (auto o : m.order) {
					if (o == x) continue;
					auto it = m.refs.find(o);
					if (it == m.refs.end()) continue;
					for (auto& rt : it->second)
						if (rt.second == x && !rt.first->IsEmpty() && rt.first->index == idx) holders.push_back(rt.first);
				}
				if (!holders.empty()) via = holders[ju64(st, "pick", 0) % holders.size()];
			}
			if (via) { hdr.DeleteBlock(*via); ctx.probe("op_delete_via_stored_ref"); }
			else hdr.DeleteBlock(idx);
			m.order.erase(m.order.begin() + idx);
			m.refs.erase(x);
			bool wasReferenced = false;
			for (auto& kv : m.refs)
				for (auto& rt : kv.second)
					if (rt.second == x) { rt.second = nullptr; wasReferenced = true; }
			if (wasReferenced) ctx.probe("deleted_referenced_block");
			ctx.probe("op_delete");
			ctx.sig.tag("del"); ctx.sig.i(idx); ctx.sig.i(nb);
			ctx.nontrivial = true;
		}
		else if (op == "PrettySort") {
			// the library's own reorder entry point (what a save with sortBlocks runs), with loose blocks wherever they are
			if (nb < 2 || nif->HasUnknown()) { stepNo++; continue; }
			nif->PrettySortBlocks();
			std::vector<NiObject*> now;
			std::set<NiObject*> before(m.order.begin(), m.order.end()), seenNow;
			bool perm = hdr.GetNumBlocks() == nb;
			for (uint32_t i = 0; i < hdr.GetNumBlocks(); i++) {
				auto o = hdr.GetBlock<NiObject>(i);
				now.push_back(o);
				if (!o || !before.count(o) || !seenNow.insert(o).second) perm = false;
			}
			if (!perm) ctx.viol("graph:sort-not-a-permutation", where + ": after PrettySortBlocks the block list is not a permutation of the blocks it had (" + std::to_string(hdr.GetNumBlocks()) + " slots, " + std::to_string(seenNow.size()) + " distinct blocks of the " + std::to_string(nb) + " before)");
			// (what the sort does to child lists and which references it follows is C04's subject; here the block list has to stay a
			// permutation, and the model goes on from what the sort left)
			m = captureModel(*nif);
			ctx.probe("op_pretty_sort");
			ctx.sig.tag("sort");
			ctx.nontrivial = true;
		}
		else if (op == "SetBlockOrder") {
			if (nb < 3) { stepNo++; continue; }
			std::vector<uint32_t> order(nb);
			for (uint32_t i = 0; i < nb; i++) order[i] = i;
			Rng r(ju64(st, "salt", 1) * 31 + 1);
			uint32_t lo = jbool(st, "keep_root", true) ? 1 : 0;
			for (uint32_t i = nb - 1; i > lo; i--) std::swap(order[i], order[lo + r.below(i - lo + 1)]);
			std::vector<NiObject*> no(nb);
			for (uint32_t i = 0; i < nb; i++) no[order[i]] = m.order[i];
			hdr.SetBlockOrder(order);
			m.order = no;
			ctx.probe("op_reorder");
			ctx.sig.tag("order"); ctx.sig.i(nb);
			ctx.nontrivial = true;
		}
		else if (op == "DeleteByType") {
			if (nb < 2) { stepNo++; continue; }
			uint32_t idx = 1 + uint32_t(sel % (nb - 1));
			std::string tn = typeNameOf(hdr, idx);
			if (classDerivesFromPublic(tn, "NiGeometryData") || tn == typeNameOf(hdr, 0)) { stepNo++; continue; }
			bool orphanedOnly = jbool(st, "orphaned", false);
			// naive model of the documented behaviour: walk the blocks of that type from the highest index down
			std::vector<uint32_t> idxs;
			for (uint32_t i = 0; i < nb; i++)
				if (hdr.GetBlockTypeStringById(i) == tn) idxs.push_back(i);
			hdr.DeleteBlockByType(tn, orphanedOnly);
			long deleted = 0;
			for (size_t j = idxs.size(); j-- > 0;) {
				NiObject* x = m.order[idxs[j]];
				bool referenced = false;
				for (auto& kv : m.refs)
					for (auto& rt : kv.second)
						if (rt.second == x) referenced = true;
				if (orphanedOnly && referenced) continue;
				m.order.erase(m.order.begin() + idxs[j]);
				m.refs.erase(x);
				for (auto& kv : m.refs)
					for (auto& rt : kv.second)
						if (rt.second == x) rt.second = nullptr;
				deleted++;
			}
			ctx.probe(orphanedOnly ? "op_delete_by_type_orphaned" : "op_delete_by_type", deleted);
			ctx.sig.tag("deltype"); ctx.sig.str(tn); ctx.sig.i(orphanedOnly);
			if (deleted) ctx.nontrivial = true;
		}
		else if (op == "DeleteUnref") {
			if (nif->HasUnknown()) { stepNo++; continue; }
			NiObject* root = nif->GetRootNode();
			uint32_t n = nif->DeleteUnreferencedBlocks();
			// naive model: prune unreferenced blocks (except the root) to a fixed point
			long pruned = 0;
			if (root) {
				for (bool again = true; again;) {
					again = false;
					for (size_t i = 0; i < m.order.size(); i++) {
						NiObject* x = m.order[i];
						if (x == root) continue;
						bool referenced = false;
						for (auto& kv : m.refs)
							for (auto& rt : kv.second)
								if (rt.second == x) referenced = true;
						if (referenced) continue;
						m.order.erase(m.order.begin() + i);
						m.refs.erase(x);
						pruned++;
						again = true;
						break;
					}
				}
			}
			if (long(n) != pruned) ctx.viol("graph:prune-count", where + ": DeleteUnreferencedBlocks reports " + std::to_string(n) + " deletions, the model prunes " + std::to_string(pruned));
			ctx.probe("op_prune", pruned);
			ctx.sig.tag("prune");
			if (pruned) ctx.nontrivial = true;
		}
		else if (op == "Restart") {
			// the model saves and reloads to an equivalent graph: same order, types, and serialised reference values
			nif->LinkGeomData();
			WriteMap wmf;
			SaveSpec sp;
			sp.map = &wmf;
			SaveOut so = saveNif(*nif, sp);
			ctx.hist.str(so.bytes);
			checkWrittenFile(*nif, so.bytes, wmf, ctx, where);
			// what the model holds once it is saved (an Oblivion save materialises tangent-space extra data blocks)
			nb = hdr.GetNumBlocks();
			std::vector<std::string> typesBefore;
			std::vector<std::vector<uint32_t>> refsBefore;
			for (uint32_t i = 0; i < nb; i++) {
				typesBefore.push_back(typeNameOf(hdr, i));
				WriteMap wm;
				putBlock(hdr, hdr.GetBlock<NiObject>(i), &wm);
				std::vector<uint32_t> v;
				for (auto& r : wm.refs) v.push_back(r.ref->index);
				refsBefore.push_back(v);
			}
			auto fresh = std::make_unique<NifFile>();
			setStage("Restart:load");
			LoadOut lo = loadNif(*fresh, so.bytes);
			if (lo.rc != 0) ctx.viol("graph:restart-load-failed", where + ": the edited model does not reload (rc=" + std::to_string(lo.rc) + ")");
			auto& h2 = fresh->GetHeader();
			if (h2.GetNumBlocks() != nb) ctx.viol("graph:restart-block-count", where + ": " + std::to_string(h2.GetNumBlocks()) + " blocks after reload, " + std::to_string(nb) + " before");
			for (uint32_t i = 0; i < nb; i++) {
				if (typeNameOf(h2, i) != typesBefore[i]) ctx.viol("graph:restart-type", where + ": block " + std::to_string(i) + " was " + typesBefore[i] + ", reloads as " + typeNameOf(h2, i));
				WriteMap wm;
				putBlock(h2, h2.GetBlock<NiObject>(i), &wm);
				std::vector<uint32_t> v;
				for (auto& r : wm.refs) v.push_back(r.ref->index);
				if (v != refsBefore[i]) ctx.viol("graph:restart-references", where + ": the references block " + std::to_string(i) + " (" + typesBefore[i] + ") serialises differ after reload");
			}
			nif = std::move(fresh);
			ctx.fault("F-RESTART");
			ctx.sig.tag("restart");
			stepNo++;
			continue;
		}
		else { stepNo++; continue; }
		compareModel(*nif, m, ctx, where);
		stepNo++;
	}
	setStage("final");
	nif->LinkGeomData();
	WriteMap wmf;
	SaveSpec sp;
	sp.map = &wmf;
	SaveOut so = saveNif(*nif, sp);
	ctx.hist.str(so.bytes);
	checkWrittenFile(*nif, so.bytes, wmf, ctx, "final save");
	NifFile chk;
	if (loadNif(chk, so.bytes).rc != 0) ctx.viol("graph:final-reload-failed", "the edited model does not reload");
	if (serialisedOnly) ctx.probe("refs_serialised_but_not_enumerated", serialisedOnly);
	setStage("dtor");
}

} // namespace sim

// =============================================================================================
// C04 — default save only permutes blocks and prunes unreferenced ones
namespace sim {

struct BlockCanon {
	std::string bytes;                   // serialised alone; reference fields, (for shapes/geometry data) bounding spheres and the node child array masked out
	std::vector<NiObject*> refTargets;   // other serialised references, in field order
	std::vector<NiObject*> children;     // NiNode child array (non-empty entries), in order
	bool isNode = false;
};

static BlockCanon canonBlock(NifFile& nif, NiObject* obj, bool maskBounds) {
	auto& hdr = nif.GetHeader();
	BlockCanon c;
	WriteMap wm;
	wm.wantFields = true;
	std::string bytes = putBlock(hdr, obj, &wm);
	uint32_t nb = hdr.GetNumBlocks();
	std::set<const NiRef*> childArr;
	auto node = dynamic_cast<NiNode*>(obj);
	if (node) {
		c.isNode = true;
		for (auto& r : node->childRefs) childArr.insert(&r);
	}
	struct Cut { size_t off, len; std::string sub; };
	std::vector<Cut> cuts;
	size_t firstChild = std::string::npos, lastChild = 0;
	for (auto& r : wm.refs) {
		NiObject* t = r.ref->IsEmpty() ? nullptr : (r.ref->index < nb ? hdr.GetBlock<NiObject>(r.ref->index) : DANGLING);
		if (childArr.count(r.ref)) {
			if (t) c.children.push_back(t);
			firstChild = std::min<size_t>(firstChild, r.off);
			lastChild = std::max<size_t>(lastChild, r.off + 4);
		}
		else {
			c.refTargets.push_back(t);
			cuts.push_back({r.off, 4, "RRRR"});
		}
	}
	if (firstChild != std::string::npos && firstChild >= 4) cuts.push_back({firstChild - 4, lastChild - (firstChild - 4), "<children>"});
	bool boundsOwner = dynamic_cast<NiShape*>(obj) || dynamic_cast<NiGeometryData*>(obj);
	if (maskBounds && boundsOwner)
		for (auto& f : wm.fields)
			if (f.type && std::string(f.type).find("BoundingSphere") != std::string::npos) cuts.push_back({f.off, f.size, "<bounds>"});
	bool indexed = hdr.GetVersion().File() >= V20_1_0_3;
	for (auto& s : wm.strs) {
		if (indexed) cuts.push_back({s.off, 4, "<" + s.ref->get() + ">"});
	}
	std::sort(cuts.begin(), cuts.end(), [](const Cut& a, const Cut& b) { return a.off < b.off; });
	size_t pos = 0;
	for (auto& cu : cuts) {
		if (cu.off < pos) continue;
		c.bytes.append(bytes, pos, cu.off - pos);
		c.bytes += cu.sub;
		pos = cu.off + cu.len;
	}
	if (pos < bytes.size()) c.bytes.append(bytes, pos, std::string::npos);
	return c;
}

struct SortSnapshot {
	std::vector<NiObject*> order;
	std::map<NiObject*, BlockCanon> canon;
	std::map<NiObject*, std::string> typeName;
	std::set<NiObject*> reachable;
	NiObject* root = nullptr;
	bool rootHasParent = false;
};

static SortSnapshot snapGraph(NifFile& nif, bool maskBounds) {
	SortSnapshot s;
	auto& hdr = nif.GetHeader();
	uint32_t nb = hdr.GetNumBlocks();
	for (uint32_t i = 0; i < nb; i++) s.order.push_back(hdr.GetBlock<NiObject>(i));
	for (auto o : s.order) { s.canon[o] = canonBlock(nif, o, maskBounds); s.typeName[o] = o->GetBlockName(); }
	s.root = nif.GetRootNode();
	if (s.root) {
		std::vector<NiObject*> stack{s.root};
		while (!stack.empty()) {
			NiObject* o = stack.back();
			stack.pop_back();
			if (!s.reachable.insert(o).second) continue;
			std::set<NiRef*> rs;
			o->GetChildRefs(rs);
			for (auto r : rs)
				if (!r->IsEmpty() && r->index < nb) stack.push_back(s.order[r->index]);
		}
		uint32_t rid = nif.GetBlockID(s.root);
		for (auto o : s.order) {
			std::set<NiRef*> rs;
			o->GetChildRefs(rs);
			for (auto r : rs)
				if (r->index == rid) s.rootHasParent = true;
		}
	}
	return s;
}

static void compareSort(NifFile& nif, const SortSnapshot& b, const SortSnapshot& a, Ctx& ctx, const std::string& where, bool rootFirst) {
	auto fail = [&](const std::string& cls, const std::string& m) { ctx.viol(cls, where + ": " + m); };
	std::map<NiObject*, int> count;
	for (auto o : a.order) count[o]++;
	for (auto& kv : count)
		if (kv.second > 1) fail("sort:block-twice", "a " + a.typeName.at(kv.first) + " occupies " + std::to_string(kv.second) + " slots");
	for (auto o : a.order)
		if (!b.canon.count(o)) fail("sort:new-block", "a block that did not exist before appeared");
	for (auto o : b.reachable)
		if (!count.count(o)) fail("sort:reachable-block-lost", "a " + b.typeName.at(o) + " reachable from the root is gone");
	std::set<NiObject*> survivors(a.order.begin(), a.order.end());
	for (auto o : b.order) {
		if (survivors.count(o)) continue;
		// vanished: no survivor may have referenced it
		for (auto s : survivors) {
			auto& cb = b.canon.at(s);
			for (auto t : cb.refTargets) if (t == o) fail("sort:referenced-block-pruned", "a " + b.typeName.at(o) + " vanished although a surviving " + b.typeName.at(s) + " referenced it");
			for (auto t : cb.children) if (t == o) fail("sort:child-pruned", "a " + b.typeName.at(o) + " vanished although it was a child of a surviving " + b.typeName.at(s));
		}
	}
	for (auto o : a.order) {
		auto& cb = b.canon.at(o);
		auto& ca = a.canon.at(o);
		std::string tn = a.typeName.at(o);
		if (ca.refTargets != cb.refTargets) fail("sort:reference-rewired:" + tn, "a reference of a " + tn + " designates another block than before");
		{
			std::set<NiObject*> sb(cb.children.begin(), cb.children.end()), sa(ca.children.begin(), ca.children.end());
			if (sa != sb) {
				std::string d;
				for (auto x : sb) if (!sa.count(x)) d += " lost " + b.typeName.at(x);
				for (auto x : sa) if (!sb.count(x)) d += " gained " + (b.typeName.count(x) ? b.typeName.at(x) : std::string("?"));
				fail("sort:child-set-changed:" + tn, "child set of a " + tn + " changed:" + d);
			}
			for (auto x : sa) {
				auto na = std::count(ca.children.begin(), ca.children.end(), x), nbefore = std::count(cb.children.begin(), cb.children.end(), x);
				if (na > nbefore) fail("sort:child-listed-more-often:" + tn, "a " + b.typeName.at(x) + " is listed " + std::to_string(na) + " times among the children of a " + tn + ", before " + std::to_string(nbefore));
			}
		}
		if (ca.bytes != cb.bytes) {
			size_t i = 0;
			while (i < ca.bytes.size() && i < cb.bytes.size() && ca.bytes[i] == cb.bytes[i]) i++;
			fail("sort:field-value-changed:" + tn, "a field of a surviving " + tn + " changed (canonical serialisation differs at " + std::to_string(i) + ", sizes " + std::to_string(cb.bytes.size()) + "/" + std::to_string(ca.bytes.size()) + ")");
		}
	}
	if (rootFirst && b.root && !b.rootHasParent && !a.order.empty() && a.order[0] != b.root)
		fail("sort:root-not-first", "the parentless root node is at index " + std::to_string(nif.GetBlockID(b.root)) + " after sorting");
	if (rootFirst && !a.order.empty()) {
		// whatever the first node was before: the block that ends up first is not a child of a surviving node
		for (auto o : a.order) {
			auto& ca = a.canon.at(o);
			if (o != a.order[0] && std::find(ca.children.begin(), ca.children.end(), a.order[0]) != ca.children.end() && dynamic_cast<NiNode*>(a.order[0]))
				fail("sort:first-block-has-a-parent", "after sorting the first block is a " + a.typeName.at(a.order[0]) + " that is a child of a surviving " + a.typeName.at(o));
		}
	}
}

void profile_sortprune(const json& plan, Ctx& ctx) {
	auto nif = std::make_unique<NifFile>();
	std::string F0;
	setStage("init");
	if (!makeInitial(plan["init"], *nif, ctx, &F0)) { ctx.info["rejected_init"] = true; ctx.probe("rejected_input"); return; }
	ctx.sig.str(plan["init"].dump());
	if (plan.contains("pre"))
		for (auto& e : plan["pre"]) if (applyEdit(*nif, e, ctx)) ctx.sig.str(jstr(e, "op"));
	if (nif->HasUnknown()) return;
	int stepNo = 0;
	for (auto& st : plan["steps"]) {
		if (g_progress) g_progress->step = stepNo;
		std::string op = jstr(st, "op");
		std::string where = "step " + std::to_string(stepNo) + " " + op;
		setStage(op.c_str());
		ctx.hist.tag(op.c_str());
		ctx.steps++;
		bool boundsChange = op == "Optimize" || op == "SaveDefault";
		if (op == "Restart") {
			SaveOut so = saveNif(*nif, SaveSpec());
			auto fresh = restartObject(nif, ctx);
			if (loadNif(*fresh, so.bytes).rc != 0) ctx.viol("sort:restart-load-failed", where);
			nif = std::move(fresh);
			ctx.fault("F-RESTART");
			stepNo++;
			continue;
		}
		nif->FinalizeData(); // string indices and data sizes as a save would compute them, so that snapshots are comparable
		SortSnapshot before = snapGraph(*nif, boundsChange);
		bool sorted = false;
		if (op == "PrettySort") { nif->PrettySortBlocks(); sorted = true; ctx.probe("op_sort"); }
		else if (op == "Optimize") { nif->Optimize(); ctx.probe("op_optimize"); }
		else if (op == "SaveDefault") {
			SaveSpec sp;
			sp.raw = false;
			SaveOut so = saveNif(*nif, sp);
			ctx.hist.str(so.bytes);
			sorted = true;
			ctx.probe("op_save_default");
		}
		else if (op == "SetShapeOrder") {
			auto names = nif->GetShapeNames();
			std::string mode = jstr(st, "mode", "perm");
			Rng r(ju64(st, "salt", 1) * 17 + 3);
			std::vector<std::string> order = names;
			if (mode == "reverse") std::reverse(order.begin(), order.end());
			else if (mode == "perm") { for (size_t i = order.size(); i > 1; i--) std::swap(order[i - 1], order[r.below(uint32_t(i))]); }
			else if (mode == "dup" && order.size() >= 2) { order[r.below(uint32_t(order.size()))] = order[r.below(uint32_t(order.size()))]; ctx.probe("shape_order_duplicate"); }
			else if (mode == "missing" && !order.empty()) { order[r.below(uint32_t(order.size()))] = "__no_such_shape__"; ctx.probe("shape_order_missing"); }
			else if (mode == "wronglen") { order.push_back("extra"); ctx.probe("shape_order_wrong_length"); }
			nif->SetShapeOrder(order);
			ctx.probe("op_shape_order");
			ctx.sig.str(mode);
			if (mode == "wronglen") {
				// documented: a list of the wrong length does nothing
				SortSnapshot after = snapGraph(*nif, false);
				if (after.order != before.order) ctx.viol("sort:wrong-length-order-had-effect", where + ": SetShapeOrder with a list of the wrong length reordered blocks");
			}
		}
		else { stepNo++; continue; }
		ctx.sig.tag(op.c_str());
		ctx.nontrivial = true;
		nif->FinalizeData();
		SortSnapshot after = snapGraph(*nif, boundsChange);
		compareSort(*nif, before, after, ctx, where, sorted);
		if (after.order.size() < before.order.size()) ctx.probe("blocks_pruned", long(before.order.size() - after.order.size()));
		if (after.order != before.order && after.order.size() == before.order.size()) ctx.probe("blocks_permuted");
		if (sorted) {
			// sorting an already sorted model changes nothing
			nif->PrettySortBlocks();
			SortSnapshot again = snapGraph(*nif, boundsChange);
			if (again.order != after.order) {
				size_t i = 0;
				while (i < again.order.size() && again.order[i] == after.order[i]) i++;
				ctx.viol("sort:not-idempotent", where + ": sorting the sorted model again moved blocks (first at index " + std::to_string(i) + ", a " + again.typeName[again.order[i]] + ")");
			}
			compareSort(*nif, after, again, ctx, where + " (second sort)", true);
		}
		stepNo++;
	}
	// "default save == raw save of the sorted model", from two fresh loads of the same file (no live model is saved twice here)
	if (!F0.empty() && jbool(plan, "compare_default_vs_sorted_raw", true) && !plan.contains("pre")) {
		setStage("default-vs-sorted-raw");
		NifFile a, b;
		if (loadNif(a, F0).rc == 0 && loadNif(b, F0).rc == 0 && !a.HasUnknown()) {
			SaveSpec ds;
			ds.raw = false;
			WriteMap wa, wb;
			ds.map = &wa;
			SaveOut sa = saveNif(a, ds);
			b.FinalizeData();
			b.Optimize();
			b.PrettySortBlocks();
			SaveSpec rs;
			rs.map = &wb;
			SaveOut sb = saveNif(b, rs);
			if (sa.bytes != sb.bytes) {
				auto pa = nifparse::parse(sa.bytes), pb = nifparse::parse(sb.bytes);
				bool same = pa.ok && pb.ok && pa.numBlocks == pb.numBlocks;
				if (same && pa.hasSizes) {
					for (uint32_t i = 0; i < pa.numBlocks && same; i++)
						if (pa.typeOf(i) != pb.typeOf(i) || pa.sizes[i] != pb.sizes[i]) same = false;
				}
				if (!same) ctx.viol("sort:default-save-differs-from-sorted-raw", "default save and raw save of the optimised+sorted model differ in block sequence or sizes");
				ctx.probe("default_vs_sorted_raw_differs_only_in_string_indices");
			}
			else ctx.probe("default_equals_sorted_raw");
		}
	}
	setStage("dtor");
}

} // namespace sim
