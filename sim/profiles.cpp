// nifsim — profile registry and initial-state factory.
#include "sim.hpp"

namespace sim {

#define PROFILE(name) void profile_##name(const json&, Ctx&);
#include "profiles.inc"
#undef PROFILE

ProfileFn findProfile(const std::string& name) {
#define PROFILE(n) if (name == #n) return profile_##n;
#include "profiles.inc"
#undef PROFILE
	return nullptr;
}

bool synthInitial(const json& spec, NifFile& nif, Ctx& ctx, std::string* fileBytes);    // gen.cpp
bool builderInitial(const json& spec, NifFile& nif, Ctx& ctx);  // builders.cpp

bool makeInitial(const json& src, NifFile& nif, Ctx& ctx, std::string* fileBytes) {
	if (src.contains("sample")) {
		auto it = samples().find(src["sample"].get<std::string>());
		if (it == samples().end()) return false;
		if (fileBytes) *fileBytes = it->second;
		return loadNif(nif, it->second).rc == 0;
	}
	if (src.contains("create")) {
		nif.Create(versionByName(src["create"].get<std::string>()));
		return true;
	}
	if (src.contains("synth")) return synthInitial(src["synth"], nif, ctx, fileBytes);
	if (src.contains("builder")) {
		if (!builderInitial(src["builder"], nif, ctx)) return false;
		if (jbool(src, "settle", false)) {
			// bring the constructed model into its stored normal form (what a file would hold): save, forget, load
			SaveOut so = saveNif(nif, SaveSpec());
			if (so.rc != 0) return false;
			if (fileBytes) *fileBytes = so.bytes;
			return loadNif(nif, so.bytes).rc == 0;
		}
		return true;
	}
	return false;
}

} // namespace sim
