// nifsim — profile registry and initial-state factory.
#include "sim.hpp"
#include "edits.hpp"

namespace sim {

#define PROFILE(name) void profile_##name(const json&, Ctx&);
#include "profiles.inc"
#undef PROFILE

ProfileFn findProfile(const std::string& name) {
#define PROFILE(n) if (name == #n) return profile_##n;
#include "profiles.inc"
#undef PROFILE
	return nullptr;
}

bool synthInitial(const json& spec, NifFile& nif, Ctx& ctx, std::string* fileBytes);    // gen.cpp
bool builderInitial(const json& spec, NifFile& nif, Ctx& ctx);  // builders.cpp

bool attachBelowShape(NifFile& nif, NiShape* shape, const std::string& type, uint64_t seed, Ctx& ctx, bool widePointers = false); // gen.cpp

static bool makeInitial0(const json& src, NifFile& nif, Ctx& ctx, std::string* fileBytes) {
	if (src.contains("sample")) {
		auto it = samples().find(src["sample"].get<std::string>());
		if (it == samples().end()) return false;
		if (fileBytes) *fileBytes = it->second;
		return loadNif(nif, it->second).rc == 0;
	}
	if (src.contains("create")) {
		nif.Create(versionByName(src["create"].get<std::string>()));
		return true;
	}
	if (src.contains("synth")) return synthInitial(src["synth"], nif, ctx, fileBytes);
	if (src.contains("builder")) {
		if (src.contains("prior_terrain_load")) {
			// F-REUSE: the object has loaded another file before, as terrain (a load option that must not outlive the load)
			auto it = samples().find(src["prior_terrain_load"].get<std::string>());
			if (it != samples().end()) {
				SimIBuf ib(it->second);
				std::istream is(&ib);
				NifLoadOptions lo;
				lo.isTerrain = true;
				nif.Load(is, lo);
				ctx.fault("F-REUSE");
				ctx.probe("object_loaded_terrain_before");
			}
		}
		if (!builderInitial(src["builder"], nif, ctx)) return false;
		if (src.contains("attach")) {
			// populated blocks of arbitrary registered types hung below a shape (type-fitting, via carrier blocks if needed)
			auto& types = allBlockTypes();
			setStage("synth:attach"); // a fault of the generating read (deliberately odd counts) is a rejected input, as in synth:generate
			for (auto& a : src["attach"]) {
				auto shapes = nif.GetShapes();
				if (shapes.empty()) return false;
				std::string t = a.contains("type") && a["type"].is_string() ? a["type"].get<std::string>() : types[ju64(a, "type_index", 0) % types.size()];
				if (!attachBelowShape(nif, shapes[ju64(a, "shape", 0) % shapes.size()], t, ju64(a, "seed", 1), ctx, jbool(a, "wide_pointers", false)) && jbool(a, "required", true)) return false;
			}
		}
		if (jbool(src, "settle", false)) {
			// bring the constructed model into its stored normal form (what a file would hold): save, forget, load
			SaveOut so = saveNif(nif, SaveSpec());
			if (so.rc != 0) return false;
			if (fileBytes) *fileBytes = so.bytes;
			bool ok = loadNif(nif, so.bytes).rc == 0;
			setStage("init");
			return ok;
		}
		setStage("init");
		return true;
	}
	return false;
}

std::string relabelTypes(const std::string& F, const nifparse::Parsed& p0, const std::set<size_t>& sel, bool sameLen); // filechecks.cpp

// "edits": [edit steps] may follow any kind of initial state (a model after an edit history as a stored file)
bool makeInitial(const json& src, NifFile& nif, Ctx& ctx, std::string* fileBytes) {
	std::string bytes;
	if (!makeInitial0(src, nif, ctx, src.contains("relabel") ? &bytes : fileBytes)) return false;
	if (src.contains("relabel")) {
		// the file is loaded by a reader that lacks factories for some of its block types (F-SKEW)
		if (bytes.empty()) bytes = saveNif(nif, SaveSpec()).bytes;
		auto p0 = nifparse::parse(bytes);
		if (!p0.ok || !p0.hasSizes || p0.types.empty()) return false;
		std::set<size_t> sel;
		for (auto& v : src["relabel"]) sel.insert(size_t(v.get<uint64_t>() % p0.types.size()));
		std::string fp = relabelTypes(bytes, p0, sel, true);
		if (loadNif(nif, fp).rc != 0) return false;
		if (fileBytes) *fileBytes = fp;
		ctx.probe("initial_state_with_unknown_blocks");
		ctx.fault("F-SKEW");
	}
	if (src.contains("layout")) {
		// another legal on-disk block order (blocks moved to the front / swapped, node order kept): what other exporters write
		for (auto& sl : src["layout"]) {
			json e = {{"op", "MoveBlocks"}, {"salt", sl.get<uint64_t>()}};
			applyEdit(nif, e, ctx);
		}
		if (fileBytes) fileBytes->clear();
		ctx.probe("initial_state_in_another_block_order");
	}
	if (src.contains("edits")) {
		for (auto& e : src["edits"]) applyEdit(nif, e, ctx);
		if (fileBytes) fileBytes->clear(); // the bytes no longer describe the model
	}
	return true;
}

} // namespace sim
