// nifsim — C01 (restart cycles reach a byte-level fixed point) and C02 (saving is repeatable and
// does not alter the model; incl. the fault configuration with a failed first save).
#include "sim.hpp"
#include "edits.hpp"

namespace sim {

// Where do two saved files differ? -> "header" or the type of the first differing block (+offset).
std::string diffWhere(const std::string& a, const std::string& b, std::string* detail) {
	auto pa = nifparse::parse(a), pb = nifparse::parse(b);
	size_t i = 0;
	while (i < a.size() && i < b.size() && a[i] == b[i]) i++;
	std::string d = "sizes " + std::to_string(a.size()) + "/" + std::to_string(b.size()) + ", first difference at byte " + std::to_string(i);
	std::string where = "header";
	if (pa.ok && pb.ok && pa.hasSizes && pb.hasSizes) {
		if (pa.numBlocks != pb.numBlocks) { where = "block-count"; d += ", blocks " + std::to_string(pa.numBlocks) + "/" + std::to_string(pb.numBlocks); }
		else {
			for (uint32_t k = 0; k < pa.numBlocks && k < pb.numBlocks; k++) {
				if (pa.typeOf(k) != pb.typeOf(k)) { where = "block-type-order"; d += ", block " + std::to_string(k) + " is " + pa.typeOf(k) + " vs " + pb.typeOf(k); break; }
				std::string x = nifparse::payload(a, pa, k), y = nifparse::payload(b, pb, k);
				if (x != y) {
					size_t o = 0;
					while (o < x.size() && o < y.size() && x[o] == y[o]) o++;
					where = pa.typeOf(k);
					d += ", block " + std::to_string(k) + " (" + pa.typeOf(k) + ") payload sizes " + std::to_string(x.size()) + "/" + std::to_string(y.size()) + " differ at payload offset " + std::to_string(o);
					break;
				}
			}
		}
	}
	else if (pa.ok && pb.ok && i >= pa.headerEnd) where = "blocks(pre-20.2.0.5)";
	if (detail) *detail = d;
	return where;
}

// Canonical form that tolerates string-table renumbering: payloads with every string index replaced by
// the string it denotes; the table itself (order, unused entries, max length) is left out.
static std::string canonical(const std::string& bytes, const WriteMap& wm) {
	auto p = nifparse::parse(bytes);
	if (!p.ok || !p.hasStrings) return bytes;
	std::string out;
	out.append(bytes, 0, std::min<size_t>(bytes.size(), bytes.find('\n') + 1));
	for (uint32_t k = 0; k < p.numBlocks; k++) { out += p.typeOf(k); out.push_back('|'); }
	size_t pos = p.headerEnd;
	std::vector<uint32_t> offs;
	for (auto& s : wm.strs)
		if (s.off >= p.headerEnd) offs.push_back(s.off);
	std::sort(offs.begin(), offs.end());
	for (auto o : offs) {
		if (o < pos || o + 4 > bytes.size()) continue;
		out.append(bytes, pos, o - pos);
		uint32_t idx;
		memcpy(&idx, &bytes[o], 4);
		// "no string" (index -1) and an index that denotes the empty string are the same content: the API reports "" for both,
		// and which of the two a save writes depends on the order in which the table happens to be rebuilt
		out += idx == 0xFFFFFFFFu ? std::string("<>") : idx < p.strings.size() ? "<" + p.strings[idx] + ">" : "<bad:" + std::to_string(idx) + ">";
		pos = o + 4;
	}
	if (pos < bytes.size()) out.append(bytes, pos, std::string::npos);
	return out;
}

void profile_roundtrip(const json& plan, Ctx& ctx) {
	auto nif = std::make_unique<NifFile>();
	std::string F0;
	setStage("init");
	if (plan.contains("prior")) {
		// F-REUSE: the object has done another job before (another file, possibly of another version, loaded and saved)
		setStage("synth:prior-job");
		if (makeInitial(plan["prior"], *nif, ctx)) { saveNif(*nif, SaveSpec()); ctx.fault("F-REUSE"); ctx.probe("object_had_a_prior_job"); }
		else nif = std::make_unique<NifFile>();
		setStage("init");
	}
	const bool hadPrior = plan.contains("prior");
	if (!makeInitial(plan["init"], *nif, ctx, &F0)) { ctx.info["rejected_init"] = true; ctx.probe("rejected_input"); return; }
	ctx.sig.str(plan["init"].dump());
	if (F0.empty() && hadPrior) {
		// keep the object: its first save of the new model is the stored file
		setStage("synth:store-F0");
		F0 = saveNif(*nif, SaveSpec()).bytes;
		if (loadNif(*nif, F0).rc != 0) { ctx.info["rejected_init"] = true; ctx.probe("rejected_input"); return; }
	}
	if (F0.empty()) {
		// the initial model was built or edited in memory: its first save is the stored file F0 the cycles start from
		setStage("synth:store-F0");
		F0 = saveNif(*nif, SaveSpec()).bytes;
		nif = std::make_unique<NifFile>();
		if (loadNif(*nif, F0).rc != 0) { ctx.info["rejected_init"] = true; ctx.probe("rejected_input"); return; }
	}
	bool doRaw = jbool(plan, "raw", true), doDef = jbool(plan, "default", true);
	const bool reuse = jbool(plan, "reuse_object", false);
	const std::string sfx = reuse ? "@reused-object" : "";
	if (doRaw) {
		setStage("raw:F1");
		SaveOut f1 = saveNif(*nif, SaveSpec());
		if (f1.rc != 0) ctx.viol("raw:save-failed", "Save returned " + std::to_string(f1.rc));
		ctx.hist.str(f1.bytes);
		// F-REUSE: the application keeps its NifFile object and loads the next file into it
		std::unique_ptr<NifFile> kept;
		if (reuse) { kept = std::move(nif); ctx.fault("F-REUSE"); }
		nif.reset();
		ctx.fault("F-RESTART");
		setStage("raw:load-F1");
		NifFile fresh1;
		NifFile& m1 = reuse ? *kept : fresh1;
		LoadOut l1 = loadNif(m1, f1.bytes);
		if (l1.rc != 0) ctx.viol("raw:own-output-not-loadable", "load(save(load(F0))) failed with rc=" + std::to_string(l1.rc));
		setStage("raw:F2");
		SaveOut f2 = saveNif(m1, SaveSpec());
		ctx.hist.str(f2.bytes);
		ctx.fault("F-RESTART");
		if (f2.bytes != f1.bytes) {
			std::string d;
			std::string w = diffWhere(f1.bytes, f2.bytes, &d);
			ctx.viol("raw:not-a-fixed-point:" + w + sfx, "F2 != F1 (" + d + ")");
		}
		ctx.nontrivial = true;
		ctx.steps += 2;
	}
	if (doDef) {
		if (F0.empty()) { ctx.note("no F0 bytes for the default-save cycle"); return; }
		setStage("default:G1");
		NifFile d0;
		if (loadNif(d0, F0).rc != 0) return;
		SaveSpec ds;
		ds.raw = false;
		SaveOut g1 = saveNif(d0, ds);
		ctx.hist.str(g1.bytes);
		NifFile fresh2, fresh3;
		NifFile& d1 = reuse ? d0 : fresh2;
		setStage("default:load-G1");
		if (loadNif(d1, g1.bytes).rc != 0) ctx.viol("default:own-output-not-loadable", "load of the default-saved file failed");
		SaveOut g2 = saveNif(d1, ds);
		NifFile& d2 = reuse ? d0 : fresh3;
		setStage("default:load-G2");
		if (loadNif(d2, g2.bytes).rc != 0) ctx.viol("default:own-output-not-loadable", "load of the second default-saved file failed");
		SaveOut g3 = saveNif(d2, ds);
		ctx.hist.str(g3.bytes);
		ctx.fault("F-RESTART", 3);
		if (g1.bytes != g2.bytes) ctx.probe("default_needed_second_round");
		if (g3.bytes != g2.bytes) {
			std::string d;
			std::string w = diffWhere(g2.bytes, g3.bytes, &d);
			ctx.viol("default:no-fixed-point-within-two-rounds:" + w + sfx, "G3 != G2 (" + d + ")");
		}
		ctx.nontrivial = true;
		ctx.steps += 3;
	}
	setStage("done");
}

// ---------------------------------------------------------------------------------------------
struct ResaveOut {
	std::vector<std::string> saves; // S1..S3 bytes
	std::vector<WriteMap> maps;
	std::vector<uint64_t> q;        // Q0..Q3
	std::vector<BatteryTrace> qt;
	bool isOB = false;
};

// Every reference slot of every block, in slot order, with the empty ones: the query battery sees the model through NifFile's
// getters only, which skip empty slots, so a save that compacts a reference array in the live model (same bytes written,
// slot -> reference mapping changed) is invisible to it.
static uint64_t refSlotsDigest(NifFile& nif) {
	Hash64 h;
	auto& hdr = nif.GetHeader();
	uint32_t nb = hdr.GetNumBlocks();
	for (uint32_t i = 0; i < nb && i < 2000; i++) {
		auto o = hdr.GetBlock<NiObject>(i);
		if (!o) { h.i(-2); continue; }
		std::vector<uint32_t> idx;
		o->GetChildIndices(idx);
		h.i((long long) idx.size());
		for (auto v : idx) h.i((long long) v);
	}
	return h.h;
}

static ResaveOut resaveHistory(const json& plan, Ctx& ctx, bool withFault, bool* initOk) {
	ResaveOut out;
	auto nif = std::make_unique<NifFile>();
	*initOk = makeInitial(plan["init"], *nif, ctx);
	if (!*initOk) return out;
	if (plan.contains("edits"))
		for (auto& e : plan["edits"]) applyEdit(*nif, e, ctx);
	bool raw = jbool(plan, "raw", true);
	out.isOB = nif->GetHeader().GetVersion().IsOB();
	uint64_t salt = ju64(plan, "battery_salt", 1);
	bool queries = jbool(plan, "queries", true);
	// save_first: the first save happens before any query, so that the later saves (with read-only queries in between) are
	// compared with the output of a model no getter has touched yet
	bool saveFirst = jbool(plan, "save_first", false);
	setStage("Q0");
	out.qt.emplace_back();
	out.q.push_back(queries && !saveFirst ? batteryDigest(*nif, ctx, salt, &out.qt.back(), false) : 0);
	if (queries && !saveFirst) { uint64_t r = refSlotsDigest(*nif); out.qt.back().push_back({"reference slots of every block (with the empty ones)", r}); out.q.back() ^= r * 0x9E3779B97F4A7C15ull; }
	if (queries && !saveFirst) {
		// the getters themselves fill caches; a second pass before any save tells their effect from the save's
		BatteryTrace t2;
		uint64_t again = batteryDigest(*nif, ctx, salt, &t2, false);
		{ uint64_t r = refSlotsDigest(*nif); t2.push_back({"reference slots of every block (with the empty ones)", r}); again ^= r * 0x9E3779B97F4A7C15ull; }
		if (again != out.q[0]) {
			ctx.probe("getters_changed_answers_without_save");
			out.q[0] = again;
			out.qt[0] = t2;
		}
	}
	for (int k = 0; k < 3; k++) {
		setStage(("S" + std::to_string(k + 1)).c_str());
		SaveSpec sp;
		sp.raw = raw;
		WriteMap wm;
		sp.map = &wm;
		if (withFault && k == 0) {
			// the first save goes to a stream that fails after `fail_at` bytes (ENOSPC / EIO mid-save)
			sp.failAfter = size_t(ju64(plan, "fail_at", 100));
			ctx.fault("F-WFAIL");
		}
		SaveOut so = saveNif(*nif, sp);
		if (withFault && k == 0 && so.streamFailed) ctx.probe("write_failure_hit");
		out.saves.push_back(so.bytes);
		if (const char* dd = getenv("NIFSIM_DUMP")) { std::string fn = std::string(dd) + "/S" + std::to_string(k + 1) + (withFault ? "f" : "") + ".nif"; FILE* f = fopen(fn.c_str(), "wb"); if (f) { fwrite(so.bytes.data(), 1, so.bytes.size(), f); fclose(f); } }
		out.maps.push_back(std::move(wm));
		setStage(("Q" + std::to_string(k + 1)).c_str());
		// extra getters between saves: several of them fill caches
		out.qt.emplace_back();
		out.q.push_back(queries ? batteryDigest(*nif, ctx, salt, &out.qt.back(), false) : 0);
		if (queries) { uint64_t r = refSlotsDigest(*nif); out.qt.back().push_back({"reference slots of every block (with the empty ones)", r}); out.q.back() ^= r * 0x9E3779B97F4A7C15ull; }
		ctx.steps++;
	}
	setStage("dtor");
	return out;
}

static std::string firstDiff(const BatteryTrace& a, const BatteryTrace& b) {
	for (size_t i = 0; i < a.size() && i < b.size(); i++)
		if (a[i].first != b[i].first || a[i].second != b[i].second) return a[i].first + (a[i].first != b[i].first ? " vs " + b[i].first : "");
	return a.size() != b.size() ? "different number of query groups" : "?";
}

void profile_resave(const json& plan, Ctx& ctx) {
	bool ok = false;
	bool raw = jbool(plan, "raw", true);
	ctx.sig.str(plan["init"].dump());
	ctx.sig.i(raw);
	if (plan.contains("edits")) ctx.sig.str(plan["edits"].dump());
	ResaveOut clean = resaveHistory(plan, ctx, false, &ok);
	if (!ok) { ctx.info["rejected_init"] = true; ctx.probe("rejected_input"); return; }
	for (auto& s : clean.saves) ctx.hist.str(s);
	for (auto q : clean.q) ctx.hist.u64(q);
	if (!plan.contains("fail_at")) {
		ctx.nontrivial = true;
		for (int k = 1; k < 3; k++) {
			if (clean.saves[k] == clean.saves[0]) continue;
			std::string ca = canonical(clean.saves[0], clean.maps[0]), cb = canonical(clean.saves[k], clean.maps[k]);
			if (ca == cb) { ctx.probe("string_renumbering_tolerated"); continue; }
			if (const char* dd = getenv("NIFSIM_DUMP")) { FILE* f = fopen((std::string(dd) + "/canonA.txt").c_str(), "wb"); fwrite(ca.data(), 1, ca.size(), f); fclose(f); f = fopen((std::string(dd) + "/canonB.txt").c_str(), "wb"); fwrite(cb.data(), 1, cb.size(), f); fclose(f); fprintf(stderr, "strs A=%zu B=%zu\n", clean.maps[0].strs.size(), clean.maps[k].strs.size()); }
			std::string d;
			std::string w = diffWhere(clean.saves[0], clean.saves[k], &d);
			ctx.viol(std::string(raw ? "raw" : "default") + ":save" + std::to_string(k + 1) + "-differs:" + w, "save #" + std::to_string(k + 1) + " of the same live model differs from save #1 (" + d + ")");
		}
		if (jbool(plan, "queries", true)) {
			size_t first = raw ? 0 : 1; // default options sort/prune/recompute bounds on the first save: documented effect
			if (jbool(plan, "save_first", false)) { first = 1; ctx.probe("first_save_before_any_query"); }
			if (clean.isOB) first = 1;  // Oblivion: the first save materialises the tangent-space extra data block (documented in FinalizeData)
			for (size_t k = first + 1; k < clean.q.size(); k++)
				if (clean.q[k] != clean.q[first] && getenv("NIFSIM_DEBUG")) {
					for (size_t i = 0; i < clean.qt[first].size() && i < clean.qt[k].size(); i++)
						fprintf(stderr, "%-60s %016llx %016llx\n", clean.qt[first][i].first.c_str(), (unsigned long long) clean.qt[first][i].second, (unsigned long long) clean.qt[k][i].second);
				}
			for (size_t k = first + 1; k < clean.q.size(); k++)
				if (clean.q[k] != clean.q[first])
					ctx.viol(std::string(raw ? "raw" : "default") + ":queries-changed-by-save", "query battery digest after save #" + std::to_string(k) + " differs from the one " + (first == 0 ? "before the first save" : "after the first save") + "; first differing group: " + firstDiff(clean.qt[first], clean.qt[k]));
		}
		return;
	}
	// fault configuration: twin comparison, ordinal by ordinal
	ResaveOut faulty = resaveHistory(plan, ctx, true, &ok);
	ctx.nontrivial = true;
	for (int k = 1; k < 3; k++) {
		if (faulty.saves[k] == clean.saves[k]) continue;
		std::string ca = canonical(clean.saves[k], clean.maps[k]), cb = canonical(faulty.saves[k], faulty.maps[k]);
		if (ca == cb) { ctx.probe("string_renumbering_tolerated"); continue; }
		std::string d;
		std::string w = diffWhere(clean.saves[k], faulty.saves[k], &d);
		ctx.viol("fault:save" + std::to_string(k + 1) + "-differs-from-twin:" + w, "after a failed first save, save #" + std::to_string(k + 1) + " differs from the fault-free twin's (" + d + ")");
	}
	if (jbool(plan, "queries", true))
		for (size_t k = 1; k < clean.q.size(); k++)
			if (clean.q[k] != faulty.q[k]) ctx.viol("fault:queries-differ-from-twin", "query digest #" + std::to_string(k) + " differs from the fault-free twin after a failed first save; first differing group: " + firstDiff(clean.qt[k], faulty.qt[k]));
}

} // namespace sim
