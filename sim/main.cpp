// nifsim — zygote / worker. One process initialises once; every run executes in a fork()ed child,
// so each run starts from the identical heap image and a crash is just a child status.
//
//   nifsim serve            read one JSON plan per line on stdin, write one JSON result per line
//   nifsim exec <plan.json> [--nofork]   run one plan from a file (replay; --nofork for gdb/valgrind)
//   nifsim types            list registered block types
#include "sim.hpp"
#include <csignal>
#include <cstdio>
#include <cstdlib>
#include <fcntl.h>
#include <fstream>
#include <iostream>
#include <sys/mman.h>
#include <sys/personality.h>
#include <sys/wait.h>
#include <unistd.h>

extern "C" {
__attribute__((used)) const char* __asan_default_options() {
	return "exitcode=77:detect_leaks=0:allocator_may_return_null=0:abort_on_error=0:symbolize=1:"
		   "handle_segv=1:handle_sigfpe=1:handle_abort=1:malloc_context_size=12:detect_stack_use_after_return=0:"
		   "print_summary=1:fast_unwind_on_malloc=1:max_allocation_size_mb=1024:hard_rss_limit_mb=6000";
}
__attribute__((used)) const char* __ubsan_default_options() { return "print_stacktrace=0:halt_on_error=0"; }

void __ubsan_get_current_report_data(const char** OutIssueKind, const char** OutMessage, const char** OutFilename,
									 unsigned* OutLine, unsigned* OutCol, char** OutMemoryAddr);
__attribute__((used)) void __ubsan_on_report(void) {
	using namespace sim;
	if (!g_progress) return;
	if (g_progress->ubsan == 0) {
		const char *kind = "", *msg = "", *file = "";
		unsigned line = 0, col = 0;
		char* addr = nullptr;
		__ubsan_get_current_report_data(&kind, &msg, &file, &line, &col, &addr);
		const char* base = strrchr(file, '/');
		snprintf(g_progress->ubsanFirst, sizeof g_progress->ubsanFirst, "%s:%s:%u: %s", kind, base ? base + 1 : file, line, msg);
	}
	g_progress->ubsan = g_progress->ubsan + 1;
}
}

namespace sim {
Progress* g_progress = nullptr;
void setStage(const char* s) {
	if (g_progress) { strncpy(g_progress->stage, s, sizeof g_progress->stage - 1); g_progress->stage[sizeof g_progress->stage - 1] = 0; }
}
std::string hex64(uint64_t v) { char b[20]; snprintf(b, sizeof b, "%016llx", (unsigned long long) v); return b; }

void Ctx::checkUbsan(const char* where) {
	if (ubsanIsViolation && g_progress && g_progress->ubsan > 0)
		viol(std::string("ubsan:") + g_progress->ubsanFirst, std::string("undefined behaviour reported during ") + where);
}
} // namespace sim

using namespace sim;

static void runPlanInChild(const char* text, size_t len) {
	json res;
	Ctx ctx;
	try {
		json plan = json::parse(text, text + len);
		ctx.property = jstr(plan, "property", "C00");
		std::string profile = jstr(plan, "profile");
		int timeout = jint(plan, "timeout_s", 30);
		simReadWindow() = size_t(ju64(plan, "read_window", 0));
		if (simReadWindow()) ctx.fault("F-CHUNK");
		simReuseObject() = jbool(plan, "reuse_object", false);
		simPipeSaves() = jbool(plan, "pipe_saves", false);
		simPipeAlternate() = jbool(plan, "pipe_alternate", false);
		if (simPipeSaves() && simPipeAlternate()) ctx.probe("saves_alternate_pipe_and_file");
		simSaveOptions() = jint(plan, "save_options", 0);
		if (simSaveOptions()) ctx.probe(simSaveOptions() == 1 ? "saves_optimize_only" : "saves_sort_only");
		if (simPipeSaves()) ctx.fault("F-NOSEEK");
		alarm(timeout);
		auto fn = findProfile(profile);
		if (!fn) {
			res = {{"status", "error"}, {"msg", "unknown profile " + profile}};
		}
		else {
			try {
				fn(plan, ctx);
				ctx.checkUbsan("run");
				res["status"] = "ok";
			} catch (Violation& v) {
				res["status"] = "viol";
				res["class"] = v.cls;
				res["msg"] = v.msg;
			}
		}
	} catch (std::exception& e) {
		// an exception escaping the library through an API call is a failed operation
		res["status"] = "viol";
		res["class"] = ctx.property + "/exception";
		res["msg"] = e.what();
	}
	alarm(0);
	res["hash"] = hex64(ctx.hist.h);
	res["sig"] = hex64(ctx.sig.h);
	res["nontrivial"] = ctx.nontrivial;
	res["steps"] = ctx.steps;
	res["probes"] = ctx.probes;
	res["faults"] = ctx.faults;
	res["ubsan"] = g_progress ? (long) g_progress->ubsan : 0;
	if (g_progress && g_progress->ubsan) res["ubsan_first"] = std::string(g_progress->ubsanFirst);
	if (!ctx.notes.empty()) res["notes"] = ctx.notes;
	if (!ctx.info.is_null()) res["info"] = ctx.info;
	res["step"] = g_progress ? (int) g_progress->step : -1;
	res["case"] = g_progress ? (int) g_progress->caseIdx : -1;
	std::string out = res.dump(-1, ' ', false, json::error_handler_t::replace) + "\n";
	size_t off = 0;
	while (off < out.size()) {
		ssize_t w = write(1, out.data() + off, out.size() - off);
		if (w <= 0) break;
		off += size_t(w);
	}
}

// ---- parent side: no heap allocation after init (static buffers, raw syscalls) ----
static char g_line[8 << 20];
static char g_err[1 << 16];
static char g_out[(1 << 17) + 1024];

static size_t escapeInto(char* dst, size_t cap, const char* src, size_t n) {
	size_t o = 0;
	for (size_t i = 0; i < n && o + 8 < cap; i++) {
		unsigned char c = (unsigned char) src[i];
		if (c == '"' || c == '\\') { dst[o++] = '\\'; dst[o++] = char(c); }
		else if (c == '\n') { dst[o++] = '\\'; dst[o++] = 'n'; }
		else if (c < 0x20 || c >= 0x7f) { o += size_t(snprintf(dst + o, 8, "\\u%04x", c)); }
		else dst[o++] = char(c);
	}
	return o;
}

static void handleAlarm(int) { _exit(99); }

static int runOne(const char* text, size_t len, int errfd, bool nofork) {
	memset((void*) g_progress, 0, sizeof(Progress));
	g_progress->step = -1;
	g_progress->caseIdx = -1;
	if (nofork) { runPlanInChild(text, len); return 0; }
	if (ftruncate(errfd, 0) != 0) {}
	lseek(errfd, 0, SEEK_SET);
	pid_t pid = fork();
	if (pid == 0) {
		dup2(errfd, 2);
		signal(SIGALRM, handleAlarm);
		runPlanInChild(text, len);
		_exit(0);
	}
	int st = 0;
	waitpid(pid, &st, 0);
	bool okExit = WIFEXITED(st) && WEXITSTATUS(st) == 0;
	if (okExit) return 0;
	int code = WIFEXITED(st) ? WEXITSTATUS(st) : -1, sig = WIFSIGNALED(st) ? WTERMSIG(st) : 0;
	ssize_t n = pread(errfd, g_err, sizeof g_err, 0);
	if (n < 0) n = 0;
	size_t o = size_t(snprintf(g_out, sizeof g_out,
							   "{\"status\":\"%s\",\"exit\":%d,\"signal\":%d,\"step\":%d,\"case\":%d,\"ubsan\":%ld,\"stage\":\"",
							   code == 99 ? "hang" : "crash", code, sig, (int) g_progress->step, (int) g_progress->caseIdx, (long) g_progress->ubsan));
	o += escapeInto(g_out + o, 256, g_progress->stage, strlen(g_progress->stage));
	o += size_t(snprintf(g_out + o, 32, "\",\"stderr\":\""));
	o += escapeInto(g_out + o, sizeof g_out - o - 16, g_err, size_t(n));
	o += size_t(snprintf(g_out + o, 16, "\"}\n"));
	size_t off = 0;
	while (off < o) {
		ssize_t w = write(1, g_out + off, o - off);
		if (w <= 0) break;
		off += size_t(w);
	}
	return 1;
}

int main(int argc, char** argv) {
	// identical address-space layout in every process: turn ASLR off and re-exec once
	if (!getenv("NIFSIM_NOASLR_DONE")) {
		int pers = personality(0xffffffff);
		if (pers != -1 && !(pers & ADDR_NO_RANDOMIZE) && personality(pers | ADDR_NO_RANDOMIZE) != -1) {
			setenv("NIFSIM_NOASLR_DONE", "1", 1);
			execv("/proc/self/exe", argv);
		}
	}
	std::string mode = argc > 1 ? argv[1] : "";
	const char* repo = getenv("NIFLY_REPO");
	loadSamples(repo ? repo : "/repo");
	allBlockTypes();
	{ // warm up: registry, regex, locale facets
		auto it = samples().find("in/Static_SE");
		if (it != samples().end()) { NifFile w; loadNif(w, it->second); SaveSpec s; saveNif(w, s); }
	}
	g_progress = (Progress*) mmap(nullptr, sizeof(Progress), PROT_READ | PROT_WRITE, MAP_SHARED | MAP_ANONYMOUS, -1, 0);

	if (mode == "types") {
		for (auto& t : allBlockTypes()) printf("%s\n", t.c_str());
		return 0;
	}
	char errname[] = "/dev/shm/nifsim_err_XXXXXX";
	int errfd = mkstemp(errname);
	if (errfd < 0) { char alt[] = "/tmp/nifsim_err_XXXXXX"; errfd = mkstemp(alt); unlink(alt); }
	else unlink(errname);

	if (mode == "exec" && argc > 2) {
		bool nofork = argc > 3 && std::string(argv[3]) == "--nofork";
		int fd = open(argv[2], O_RDONLY);
		if (fd < 0) { perror("open plan"); return 2; }
		ssize_t n = read(fd, g_line, sizeof g_line - 1), tot = 0;
		while (n > 0) { tot += n; n = read(fd, g_line + tot, sizeof g_line - 1 - size_t(tot)); }
		close(fd);
		return runOne(g_line, size_t(tot), errfd, nofork);
	}
	if (mode == "serve") {
		size_t have = 0;
		for (;;) {
			// find a full line
			char* nl = (char*) memchr(g_line, '\n', have);
			if (!nl) {
				if (have == sizeof g_line) { fprintf(stderr, "plan too long\n"); return 2; }
				ssize_t n = read(0, g_line + have, sizeof g_line - have);
				if (n <= 0) break;
				have += size_t(n);
				continue;
			}
			size_t len = size_t(nl - g_line);
			if (len > 0) runOne(g_line, len, errfd, false);
			memmove(g_line, nl + 1, have - len - 1);
			have -= len + 1;
		}
		return 0;
	}
	fprintf(stderr, "usage: nifsim serve | exec <plan.json> [--nofork] | types\n");
	return 2;
}
