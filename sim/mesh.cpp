// nifsim — single-slot mesh histories against the mesh model: C09 (vertex deletion), C10 (skin
// partitions), C17 (segment / partition labels). Plan = {init, steps[]}; selectors are interpreted
// modulo what exists when the step runs.
#include "models.hpp"
#include "builders.hpp"

namespace sim {

struct MeshWorld {
	std::unique_ptr<NifFile> nif;
	Ctx& ctx;
	const std::string& prop;
	explicit MeshWorld(Ctx& c) : ctx(c), prop(c.property) {}
};

static void cmpAttr(Ctx& ctx, const std::string& where, const ShapeSnap& got, const ShapeSnap& want, bool trisAsMultiset) {
	auto fail = [&](const std::string& cls, const std::string& m) { ctx.viol(cls, where + " [" + want.type + " '" + want.name + "']: " + m); };
	if (got.nv != want.nv) fail("model:numVertices", "vertex count " + std::to_string(got.nv) + " expected " + std::to_string(want.nv));
	size_t at = 0;
	if (!sameV3(got.verts, want.verts, 0, &at)) fail("model:vertices", "vertex positions differ at " + std::to_string((long) at) + " (sizes " + std::to_string(got.verts.size()) + "/" + std::to_string(want.verts.size()) + ")");
	if (!sameV3(got.normals, want.normals, 0, &at)) fail("model:normals", "normals differ at " + std::to_string((long) at) + " (sizes " + std::to_string(got.normals.size()) + "/" + std::to_string(want.normals.size()) + ")");
	if (!sameV3(got.tangents, want.tangents, 0, &at)) fail("model:tangents", "tangents differ at " + std::to_string((long) at));
	if (!sameV3(got.bitangents, want.bitangents, 0, &at)) fail("model:bitangents", "bitangents differ at " + std::to_string((long) at));
	if (!sameV2(got.uvs, want.uvs, 0, &at)) fail("model:uvs", "UVs differ at " + std::to_string((long) at) + " (sizes " + std::to_string(got.uvs.size()) + "/" + std::to_string(want.uvs.size()) + ")");
	if (!sameC4(got.colors, want.colors, 0, &at)) fail("model:colors", "colours differ at " + std::to_string((long) at));
	if (got.eye.size() != want.eye.size()) fail("model:eyedata", "eye data size");
	for (size_t i = 0; i < got.eye.size(); i++)
		if (memcmp(&got.eye[i], &want.eye[i], 4)) fail("model:eyedata", "eye data differs at " + std::to_string(i) + ": " + std::to_string(got.eye[i]) + " expected " + std::to_string(want.eye[i]) + " (vertex x " + (i < got.verts.size() ? std::to_string(got.verts[i].x) : "?") + ")");
	if (!want.isStrips) {
		if (trisAsMultiset) {
			std::multiset<TriKey> a, b;
			for (auto& t : got.tris) a.insert(canonTri(t));
			for (auto& t : want.tris) b.insert(canonTri(t));
			if (a != b) fail("model:triangle-set", "triangle multiset differs (" + std::to_string(a.size()) + " vs " + std::to_string(b.size()) + ")");
		}
		else {
			if (got.tris.size() != want.tris.size()) fail("model:triangle-count", "triangles " + std::to_string(got.tris.size()) + " expected " + std::to_string(want.tris.size()));
			for (size_t i = 0; i < want.tris.size(); i++)
				if (!(got.tris[i] == want.tris[i])) fail("model:triangle-order", "triangle " + std::to_string(i) + " is " + triStr(got.tris[i]) + " expected " + triStr(want.tris[i]));
		}
	}
	if (got.bones != want.bones) fail("model:bones", "bone list differs");
	if (got.boneWeights.size() != want.boneWeights.size()) fail("model:boneWeights", "bone weight lists");
	for (size_t b = 0; b < want.boneWeights.size(); b++)
		if (got.boneWeights[b] != want.boneWeights[b]) {
			fail("model:boneWeights", "weights of bone " + std::to_string(b) + " differ (" + std::to_string(got.boneWeights[b].size()) + " vs " + std::to_string(want.boneWeights[b].size()) + " entries)");
		}
	if (got.vertWeights != want.vertWeights) fail("model:vertWeights", "per-vertex weights differ");
	{
		auto a = got.lockedNorm, b = want.lockedNorm;
		std::sort(a.begin(), a.end());
		std::sort(b.begin(), b.end());
		if (a != b) fail("model:lockedNorm", "LOCKEDNORM list differs (" + std::to_string(a.size()) + " vs " + std::to_string(b.size()) + ")");
	}
	if (want.isDynamic && got.dynamicCount != want.dynamicCount) fail("model:dynamicData", "dynamic data count " + std::to_string(got.dynamicCount) + " expected " + std::to_string(want.dynamicCount));
}

static std::vector<ShapeSnap> snapAll(NifFile& nif) {
	std::vector<ShapeSnap> v;
	for (auto s : nif.GetShapes()) v.push_back(snapShape(nif, s));
	return v;
}

struct PartFlags {
	std::map<size_t, bool> notRebuilt, coverInvalid; // per shape index; absent = rebuilt / valid
	std::map<size_t, bool> trianglesChanged;         // the shape's triangle list was replaced: the next rebuild has to cover the new list
	bool rebuilt(size_t i) const { return !notRebuilt.count(i) || !notRebuilt.at(i); }
	bool cover(size_t i) const { return (!coverInvalid.count(i) || !coverInvalid.at(i)) && !(trianglesChanged.count(i) && trianglesChanged.at(i)); }
};

// onlyRebuilt: C10 after a restart – only shapes whose partitions were rebuilt since their last edit are held to the invariants
static void checkAll(MeshWorld& w, const std::string& where, bool partsFull, const PartFlags* pf = nullptr, bool onlyRebuilt = false) {
	size_t i = 0;
	for (auto s : w.nif->GetShapes()) {
		if (w.prop == "C09" || w.prop == "C07") checkShapeIndices(*w.nif, s, w.ctx, where);
		if (w.prop == "C10" && (!pf || (pf->cover(i) && (!onlyRebuilt || pf->rebuilt(i))))) checkPartitions(*w.nif, s, w.ctx, where, partsFull && (!pf || pf->rebuilt(i)));
		if (w.prop == "C17") checkSegmentRanges(*w.nif, s, w.ctx, where);
		i++;
	}
}

// C17: what GetShapeSegments must return after SetShapeSegments(inf, labels)
struct SegExpect {
	bool active = false;
	size_t shapeIdx = 0;
	std::vector<int> labels;        // expected labels per (new) triangle index; -2 = "any single range"
	std::vector<Triangle> tris;     // expected triangle sequence
	size_t nsegs = 0;
	std::vector<size_t> nsubs;
};

static void checkSegExpect(MeshWorld& w, const SegExpect& e, const std::string& where) {
	if (!e.active) return;
	auto shapes = w.nif->GetShapes();
	if (e.shapeIdx >= shapes.size()) return;
	NiShape* s = shapes[e.shapeIdx];
	NifSegmentationInfo inf;
	std::vector<int> tp;
	if (!NifFile::GetShapeSegments(s, inf, tp)) w.ctx.viol("seg:get-failed", where + ": GetShapeSegments returned false");
	std::vector<Triangle> cur;
	s->GetTriangles(cur);
	auto fail = [&](const std::string& cls, const std::string& m) { w.ctx.viol(cls, where + " ['" + s->name.get() + "']: " + m); };
	if (tp.size() != cur.size()) fail("seg:label-count", "labels " + std::to_string(tp.size()) + " triangles " + std::to_string(cur.size()));
	if (inf.segs.size() != e.nsegs) fail("seg:segment-count", "segments " + std::to_string(inf.segs.size()) + " expected " + std::to_string(e.nsegs));
	for (size_t i = 0; i < e.nsegs; i++)
		if (inf.segs[i].subs.size() != e.nsubs[i]) fail("seg:subsegment-count", "segment " + std::to_string(i));
	if (cur.size() != e.tris.size()) fail("seg:triangle-count", "triangles " + std::to_string(cur.size()) + " expected " + std::to_string(e.tris.size()));
	// triangles given as unassigned (-1) may end up in any single range: compare the labelled ones as a
	// subsequence (builder triangles are pairwise distinct, so they are identified by value)
	std::set<TriKey> un;
	for (size_t i = 0; i < e.tris.size(); i++)
		if (e.labels[i] == -2) un.insert({e.tris[i].p1, e.tris[i].p2, e.tris[i].p3});
	size_t ei = 0;
	int unLabel = -1;
	for (size_t i = 0; i < cur.size(); i++) {
		if (tp[i] < 0) fail("seg:unassigned", "triangle " + std::to_string(i) + " is in no segment");
		if (un.count({cur[i].p1, cur[i].p2, cur[i].p3})) {
			if (unLabel == -1) unLabel = tp[i];
			if (tp[i] != unLabel) fail("seg:unassigned-split", "triangles given as unassigned ended up in different ranges");
			continue;
		}
		while (ei < e.tris.size() && e.labels[ei] == -2) ei++;
		if (ei >= e.tris.size()) fail("seg:triangle-order", "more labelled triangles than expected");
		if (!(cur[i] == e.tris[ei])) fail("seg:triangle-order", "triangle " + std::to_string(i) + " is " + triStr(cur[i]) + " expected " + triStr(e.tris[ei]) + " (stable within a label)");
		if (tp[i] != e.labels[ei]) fail("seg:label", "triangle " + std::to_string(i) + " " + triStr(cur[i]) + " has label " + std::to_string(tp[i]) + " expected " + std::to_string(e.labels[ei]));
		ei++;
	}
	for (size_t i = 1; i < tp.size(); i++)
		if (tp[i] < tp[i - 1]) fail("seg:labels-not-ordered", "label sequence decreases at triangle " + std::to_string(i));
}

void profile_mesh(const json& plan, Ctx& ctx) {
	MeshWorld w(ctx);
	w.nif = std::make_unique<NifFile>();
	setStage("init");
	if (!makeInitial(plan["init"], *w.nif, ctx)) { ctx.info = {{"rejected_init", true}}; return; }
	ctx.sig.str(plan["init"].dump());
	checkAll(w, "initial state", true);
	SegExpect segx;
	// C17: per shape, the partition labelling (triangle -> body part id) as read back right after SetShapePartitions; it must be
	// read back again after save + reload
	using PartLabelling = std::multiset<std::pair<TriKey, int>>;
	std::map<size_t, PartLabelling> partExpect;
	auto readPartLabelling = [&](NiShape* sh, PartLabelling& out) {
		NiVector<BSDismemberSkinInstance::PartitionInfo> pi2;
		std::vector<int> tp;
		if (!w.nif->GetShapePartitions(sh, pi2, tp)) return false;
		std::vector<Triangle> tris;
		sh->GetTriangles(tris);
		if (tp.size() != tris.size()) return false;
		for (size_t i = 0; i < tris.size(); i++) out.insert({canonTri(tris[i]), tp[i] >= 0 && size_t(tp[i]) < pi2.size() ? int(pi2[tp[i]].partID) : -1 - tp[i]});
		return true;
	};
	std::map<size_t, ShapeSnap> blindWant; // model state of shapes after deletions nobody has observed yet
	bool unobservedOps = false;            // partition operations since the last observation
	PartFlags pf; // C10: per shape, were partitions rebuilt (UpdateSkinPartitions) since the last edit touching them
	int stepNo = 0;
	for (auto& st : plan["steps"]) {
		if (g_progress) g_progress->step = stepNo;
		std::string op = jstr(st, "op");
		std::string where = "step " + std::to_string(stepNo) + " " + op;
		setStage(op.c_str());
		ctx.hist.tag(op.c_str());
		ctx.steps++;
		auto shapes = w.nif->GetShapes();
		size_t sidx = shapes.empty() ? 0 : size_t(ju64(st, "shape", 0) % shapes.size());
		NiShape* shape = shapes.empty() ? nullptr : shapes[sidx];
		if (op != "UpdateSkinPartitions" && op != "AddTriangles")
			for (auto& kv : pf.trianglesChanged)
				if (kv.second) { kv.second = false; pf.coverInvalid[kv.first] = true; } // anything but a rebuild on stale partitions: no claim afterwards
		if (op != "Restart" && op != "SetPartitions") partExpect.erase(sidx);
		if (op != "Restart" && !(op == "DeleteVerts" && jbool(st, "blind", false))) blindWant.clear(); // observed from here on
		// unobserved partition operations: their own checks (which call getters that rebuild caches) are left out; the
		// invariants are checked on the model reloaded by the restart that follows
		const bool blindOp = op != "Restart" && op != "DeleteVerts" && jbool(st, "blind", false);
		if (blindOp) { unobservedOps = true; ctx.probe("partition_operation_not_observed_before_save"); }
		else if (op != "Restart") unobservedOps = false; // any other operation on the shape ends the "set, save, reload" episode

		if (op == "DeleteVerts") {
			if (!shape || shape->GetNumVertices() == 0) { stepNo++; continue; }
			ShapeSnap before = snapShape(*w.nif, shape);
			auto del = pickVerts(st["verts"], before.nv);
			if (del.empty()) { stepNo++; continue; }
			ShapeSnap want = modelDeleteVerts(before, del);
			bool allGone = w.nif->DeleteVertsForShape(shape, del);
			pf.notRebuilt[sidx] = true;
			ctx.hist.i(allGone);
			ctx.hist.i((long long) del.size());
			ctx.sig.tag("del"); ctx.sig.str(before.type); ctx.sig.i(before.skinned); ctx.sig.i(before.nv); ctx.sig.i((long long) del.size()); ctx.sig.i(del.front()); ctx.sig.i(del.back());
			if (del.size() < before.nv && !before.tris.empty()) ctx.nontrivial = true;
			if (before.isStrips) ctx.probe("deleted_from_strips");
			if (before.skinned) ctx.probe("deleted_from_skinned");
			if (before.hasLockedNorm) ctx.probe("deleted_with_lockednorm");
			if (before.isDynamic) ctx.probe("deleted_from_dynamic");
			if (before.hasSegs && !before.segInfo.segs.empty()) ctx.probe("deleted_with_segments");
			if (before.type == "BSMeshLODTriShape") ctx.probe("deleted_from_meshlod");
			if (del.size() == before.nv) ctx.probe("deleted_all");
			bool empty = allGone || want.nv == 0 || (!want.isStrips && want.tris.empty());
			// unobserved deletion: nothing is queried between the deletion and the save that follows (the harness's own
			// observations call getters that rebuild caches and would hide a stale one); the reloaded shape is compared with the model
			bool blind = jbool(st, "blind", false) && !empty;
			if (blind) { blindWant[sidx] = want; ctx.probe("deletion_not_observed_before_save"); }
			if (prop_is(ctx, "C09") && !blind) {
				if (!empty) {
					ShapeSnap got = snapShape(*w.nif, shape);
					cmpAttr(ctx, where, got, want, false);
				}
				else ctx.probe("shape_emptied");
			}
			if (segx.active && segx.shapeIdx == sidx) {
				// C17: surviving triangles keep their labels; model the deletion on the expectation
				std::vector<int> map(before.nv, -1);
				{ size_t di = 0; int c = 0; for (uint32_t i = 0; i < before.nv; i++) { if (di < del.size() && del[di] == i) di++; else map[i] = c++; } }
				SegExpect ne = segx;
				ne.labels.clear(); ne.tris.clear();
				for (size_t i = 0; i < segx.tris.size(); i++) {
					auto& t = segx.tris[i];
					if (map[t.p1] >= 0 && map[t.p2] >= 0 && map[t.p3] >= 0) {
						ne.tris.push_back(Triangle(uint16_t(map[t.p1]), uint16_t(map[t.p2]), uint16_t(map[t.p3])));
						ne.labels.push_back(segx.labels[i]);
					}
				}
				segx = ne;
				if (empty) segx.active = false;
				ctx.probe("segments_after_delete");
			}
			if (blind) { stepNo++; continue; }
			if (empty) { pf.coverInvalid[sidx] = true; checkAll(w, where, false, &pf); stepNo++; continue; }
			checkAll(w, where, false, &pf);
			if (prop_is(ctx, "C17")) checkSegExpect(w, segx, where);
		}
		else if (op == "Restart" && (!blindWant.empty() || unobservedOps)) {
			// the save follows an unobserved deletion: no query before it
			SaveSpec sp;
			sp.raw = jstr(st, "save", "raw") == "raw";
			std::vector<std::string> namesBefore;
			for (auto sh : w.nif->GetShapes()) namesBefore.push_back(sh->name.get());
			SaveOut so = saveNif(*w.nif, sp);
			ctx.hist.str(so.bytes);
			if (so.rc != 0) ctx.viol("restart:save-failed", where + ": Save returned " + std::to_string(so.rc));
			auto fresh = restartObject(w.nif, ctx);
			LoadOut lo = loadNif(*fresh, so.bytes);
			if (lo.rc != 0) ctx.viol("restart:reload-failed", where + ": the saved model does not load (rc=" + std::to_string(lo.rc) + ")");
			w.nif = std::move(fresh);
			ctx.fault("F-RESTART");
			ctx.sig.tag("restart-unobserved");
			auto rs = w.nif->GetShapes();
			{
				std::vector<std::string> namesAfter;
				for (auto sh : rs) namesAfter.push_back(sh->name.get());
				if (namesAfter != namesBefore) {
					for (size_t k = 0; k < namesAfter.size(); k++) { pf.coverInvalid[k] = true; pf.notRebuilt[k] = true; }
					segx.active = false;
					partExpect.clear();
					blindWant.clear();
					ctx.probe("shape_order_changed_by_restart");
				}
			}
			for (auto& kv : blindWant) {
				if (kv.first >= rs.size()) { ctx.viol("restart:shape-count", where + ": shape " + std::to_string(kv.first) + " is missing after reload"); continue; }
				ShapeSnap got = snapShape(*w.nif, rs[kv.first]);
				ShapeSnap want = kv.second;
				bool sseSkinned = want.skinned && w.nif->GetHeader().GetVersion().IsSSE();
				if (prop_is(ctx, "C09")) {
					got.boneWeights = want.boneWeights;
					got.vertWeights = want.vertWeights;
					cmpAttr(ctx, where + " (reloaded after an unobserved deletion)", got, want, sseSkinned);
				}
				if (!want.isStrips) {
					std::multiset<TriKey> a, b;
					for (auto& t : want.tris) b.insert(canonTri(t));
					for (auto& t : got.tris) a.insert(canonTri(t));
					if (a != b) ctx.viol("restart:triangles-not-a-permutation", where + " [" + want.name + "]: after an unobserved deletion, save and reload the shape has " + std::to_string(a.size()) + " triangles that are not the " + std::to_string(b.size()) + " surviving ones");
				}
			}
			blindWant.clear();
			unobservedOps = false;
			checkAll(w, where + " (reloaded)", true, &pf, true);
			if (prop_is(ctx, "C17")) checkSegExpect(w, segx, where + " (reloaded)");
			for (size_t k = 0; k < rs.size(); k++)
				if (!pf.rebuilt(k)) pf.coverInvalid[k] = true; // stored without a rebuild: partitions are whatever the writer left
		}
		else if (op == "Restart") {
			bool raw = jstr(st, "save", "raw") == "raw";
			std::vector<std::string> namesBefore;
			for (auto sh : w.nif->GetShapes()) namesBefore.push_back(sh->name.get());
			std::vector<ShapeSnap> before = snapAll(*w.nif);
			SaveSpec sp;
			sp.raw = raw;
			if (st.contains("fail_first")) {
				// the disk fills up (or the stream errors) during the first attempt; the caller retries on a healthy stream
				SaveSpec bad = sp;
				bad.failAfter = size_t(ju64(st, "fail_first", 100));
				SaveOut lost = saveNif(*w.nif, bad);
				if (lost.streamFailed) { ctx.fault("F-WFAIL"); before = snapAll(*w.nif); }
			}
			SaveOut so = saveNif(*w.nif, sp);
			ctx.hist.str(so.bytes);
			if (so.rc != 0) ctx.viol("restart:save-failed", where + ": Save returned " + std::to_string(so.rc));
			if (!jbool(st, "dtor", true)) (void) w.nif.release(); // crash: the old process image simply vanishes
			auto fresh = restartObject(w.nif, ctx);
			LoadOut lo = loadNif(*fresh, so.bytes);
			if (lo.rc != 0) ctx.viol("restart:reload-failed", where + ": the saved model does not load (rc=" + std::to_string(lo.rc) + ")");
			w.nif = std::move(fresh);
			ctx.fault("F-RESTART");
			ctx.sig.tag("restart");
			{
				// a sorting save may bring the shapes into another order: everything this profile remembers per shape index is
				// then withdrawn rather than applied to the wrong shape
				std::vector<std::string> namesAfter;
				for (auto sh : w.nif->GetShapes()) namesAfter.push_back(sh->name.get());
				if (namesAfter != namesBefore) {
					for (size_t k = 0; k < namesAfter.size(); k++) { pf.coverInvalid[k] = true; pf.notRebuilt[k] = true; }
					segx.active = false;
					partExpect.clear();
					before.clear();
					ctx.probe("shape_order_changed_by_restart");
				}
			}
			std::vector<ShapeSnap> after = snapAll(*w.nif);
			if (prop_is(ctx, "C09")) {
				if (!raw) {
					// default save may reorder blocks: match shapes by name when names are unique
				}
				if (!before.empty() && after.size() != before.size()) ctx.viol("restart:shape-count", where + ": " + std::to_string(after.size()) + " shapes after reload, " + std::to_string(before.size()) + " before");
				for (size_t i = 0; i < before.size(); i++) {
					if (before[i].nv == 0 || (!before[i].isStrips && before[i].tris.empty())) continue; // emptied shape: the caller is told to delete it
					bool sseSkinned = before[i].skinned && w.nif->GetHeader().GetVersion().IsSSE();
					ShapeSnap want = before[i];
					// weights as the API reports them are compared only structurally after a restart (C12 owns their values)
					ShapeSnap got = after[i];
					got.boneWeights = want.boneWeights;
					got.vertWeights = want.vertWeights;
					cmpAttr(ctx, where + " (reloaded)", got, want, sseSkinned);
				}
			}
			// C10 speaks about partitions that were rebuilt / reassigned: the stored form of a model is held
			// to the full invariants only if UpdateSkinPartitions ran after the last edit touching partitions
			checkAll(w, where + " (reloaded)", true, &pf, true);
			if (prop_is(ctx, "C17")) checkSegExpect(w, segx, where + " (reloaded)");
			if (prop_is(ctx, "C17") && after.size() == before.size()) {
				// "the stored triangles are a permutation of the previous ones ... after vertex deletion, save and reload"
				for (size_t k = 0; k < before.size(); k++) {
					if (before[k].isStrips || before[k].nv == 0) continue;
					std::multiset<TriKey> a, b;
					for (auto& t : before[k].tris) b.insert(canonTri(t));
					for (auto& t : after[k].tris) a.insert(canonTri(t));
					if (a != b) {
						size_t lost = 0;
						for (auto& e : b) if (a.count(e) < b.count(e)) lost++;
						ctx.viol("restart:triangles-not-a-permutation", where + " [" + before[k].name + "]: " + std::to_string(lost) + " of " + std::to_string(b.size()) + " triangles are not read back after save + reload (" + std::to_string(a.size()) + " triangles reloaded)");
					}
				}
			}
			if (prop_is(ctx, "C17")) {
				auto rs = w.nif->GetShapes();
				for (auto& kv : partExpect) {
					if (kv.first >= rs.size() || rs.size() != before.size()) continue;
					PartLabelling got;
					if (!readPartLabelling(rs[kv.first], got)) { ctx.viol("part:labels-unreadable-after-reload", where + ": the partition labelling set before the save cannot be read back after reload"); continue; }
					if (got != kv.second) {
						size_t lost = 0;
						for (auto& e : kv.second) if (got.count(e) < kv.second.count(e)) lost++;
						ctx.viol("part:labelling-after-reload", where + " [" + rs[kv.first]->name.get() + "]: " + std::to_string(lost) + " of " + std::to_string(kv.second.size()) + " (triangle, body part) pairs set before the save are not read back after reload");
					}
					ctx.probe("partition_labels_read_back_after_reload");
				}
			}
			for (size_t k = 0; k < after.size(); k++) {
				if (pf.rebuilt(k) && pf.cover(k) && after[k].hasParts) ctx.probe("restart_after_rebuild");
				if (!pf.rebuilt(k)) pf.coverInvalid[k] = true; // stored without a rebuild: partitions are whatever the writer left
			}
		}
		else if (op == "SetPartitions") {
			if (!shape) { stepNo++; continue; }
			auto si = w.nif->GetHeader().GetBlock<NiSkinInstance>(shape->SkinInstanceRef());
			if (!si || !w.nif->GetHeader().GetBlock(si->skinPartitionRef)) { stepNo++; continue; }
			int np = 1 + int(ju64(st, "nparts", 2) % 6);
			Rng r(ju64(st, "salt", 1) * 31 + 11);
			NiVector<BSDismemberSkinInstance::PartitionInfo> pinfo;
			for (int p = 0; p < np; p++) {
				BSDismemberSkinInstance::PartitionInfo pi;
				pi.partID = uint16_t(30 + r.below(30));
				pi.flags = PF_EDITOR_VISIBLE;
				pinfo.push_back(pi);
			}
			uint32_t nt = shape->GetNumTriangles();
			std::vector<int> labels(nt);
			bool un = jbool(st, "unassigned", false), oor = jbool(st, "oor", false), leaveEmpty = jbool(st, "leave_empty", false);
			for (auto& l : labels) {
				l = int(r.below(uint32_t(leaveEmpty && np > 1 ? np - 1 : np)));
				if (un && r.chance(0.15)) { l = -1; ctx.probe("label_unassigned"); }
				else if (oor && r.chance(0.1)) { l = np + (jbool(st, "oor_exact", false) ? 0 : int(r.below(2))); ctx.probe("label_out_of_range"); } // (oor_exact: the largest label is exactly one past the list)
			}
			if (leaveEmpty && np > 1) ctx.probe("partition_left_empty");
			w.nif->SetShapePartitions(shape, pinfo, labels);
			ctx.sig.tag("setparts"); ctx.sig.i(np); ctx.sig.i(nt); ctx.sig.i(un); ctx.sig.i(oor);
			if (nt > 0) ctx.nontrivial = true;
			pf.coverInvalid[sidx] = false;
			pf.notRebuilt[sidx] = true;
			shape = w.nif->GetShapes()[sidx];
			if (!blindOp && prop_is(ctx, "C10")) checkPartitions(*w.nif, shape, ctx, where, false);
			if (prop_is(ctx, "C17") && !blindOp) {
				// labels read back: same labelling (unassigned -1 -> one extra partition)
				NiVector<BSDismemberSkinInstance::PartitionInfo> pi2;
				std::vector<int> tp;
				w.nif->GetShapePartitions(shape, pi2, tp);
				if (tp.size() != labels.size()) ctx.viol("part:label-count", where + ": " + std::to_string(tp.size()) + " labels read back, " + std::to_string(labels.size()) + " given");
				for (size_t i = 0; i < tp.size(); i++)
					if (tp[i] >= int(pi2.size())) ctx.viol("part:label-without-partition", where + ": triangle " + std::to_string(i) + " reads back label " + std::to_string(tp[i]) + ", only " + std::to_string(pi2.size()) + " partitions exist");
				int extra = -1;
				for (size_t i = 0; i < labels.size(); i++) {
					if (labels[i] >= 0) { if (tp[i] != labels[i]) ctx.viol("part:label", where + ": triangle " + std::to_string(i) + " label " + std::to_string(tp[i]) + " expected " + std::to_string(labels[i])); }
					else {
						if (tp[i] < 0) ctx.viol("part:unassigned", where + ": triangle " + std::to_string(i) + " still unassigned");
						if (extra == -1) extra = tp[i];
						if (tp[i] != extra) ctx.viol("part:unassigned-split", where + ": unassigned triangles ended up in different partitions");
					}
				}
				ctx.probe("partition_labels_read_back");
				PartLabelling pl;
				if (readPartLabelling(shape, pl)) partExpect[sidx] = pl;
			}
		}
		else if (op == "AddTriangles") {
			// the shape's triangle list is replaced through the shape object by a longer one (new, distinct triangles appended)
			if (!shape || !shape->IsSkinned() || shape->GetNumVertices() < 4 || !pf.cover(sidx)) { stepNo++; continue; } // (only on a shape whose partitions cover it now)
			std::vector<Triangle> tris;
			if (!shape->GetTriangles(tris) || tris.empty()) { stepNo++; continue; }
			std::set<TriKey> have;
			for (auto& t : tris) have.insert(canonTri(t));
			Rng r(ju64(st, "salt", 1) * 53 + 7);
			uint16_t nv = shape->GetNumVertices();
			int added = 0, want = 1 + int(ju64(st, "salt", 1) % 3);
			for (int tries = 0; tries < 200 && added < want && tris.size() < 65000; tries++) {
				Triangle t(uint16_t(r.below(nv)), uint16_t(r.below(nv)), uint16_t(r.below(nv)));
				if (t.p1 == t.p2 || t.p2 == t.p3 || t.p1 == t.p3 || !have.insert(canonTri(t)).second) continue;
				tris.push_back(t);
				added++;
			}
			if (!added) { stepNo++; continue; }
			shape->SetTriangles(tris);
			pf.trianglesChanged[sidx] = true;
			pf.notRebuilt[sidx] = true;
			ctx.sig.tag("addtris"); ctx.sig.i(added);
			ctx.probe("triangles_added_through_shape");
			ctx.nontrivial = true;
		}
		else if (op == "UpdateSkinPartitions") {
			if (!shape) { stepNo++; continue; }
			w.nif->UpdateSkinPartitions(shape);
			ctx.sig.tag("update");
			shape = w.nif->GetShapes()[sidx];
			auto si = w.nif->GetHeader().GetBlock<NiSkinInstance>(shape->SkinInstanceRef());
			if (si) {
				auto sp = w.nif->GetHeader().GetBlock(si->skinPartitionRef);
				if (sp && sp->partitions.size() > 1) ctx.probe("multi_partition");
				auto bsd = dynamic_cast<BSDismemberSkinInstance*>(si);
				if (bsd && sp) {
					std::set<uint16_t> ids;
					for (auto& p : bsd->partitions) ids.insert(p.partID);
					if (ids.size() < bsd->partitions.size()) ctx.probe("bone_limit_split_or_shared_slot");
				}
			}
			if (pf.trianglesChanged.count(sidx) && pf.trianglesChanged[sidx]) {
				// "after skin partitions are rebuilt every triangle of the shape lies in exactly one partition": also the ones added since
				pf.trianglesChanged[sidx] = false;
				ctx.probe("rebuilt_after_triangles_were_replaced");
			}
			if (pf.cover(sidx)) pf.notRebuilt[sidx] = false;
			if (!blindOp && prop_is(ctx, "C10") && pf.cover(sidx)) checkPartitions(*w.nif, shape, ctx, where, true);
		}
		else if (op == "SetDefaultPartition") {
			if (!shape || !shape->SkinInstanceRef() || shape->SkinInstanceRef()->IsEmpty()) { stepNo++; continue; }
			w.nif->SetDefaultPartition(shape);
			ctx.sig.tag("default");
			pf.coverInvalid[sidx] = false;
			pf.notRebuilt[sidx] = true;
			if (!blindOp && prop_is(ctx, "C10")) checkPartitions(*w.nif, shape, ctx, where, false);
		}
		else if (op == "DeletePartitions") {
			if (!shape) { stepNo++; continue; }
			NiVector<BSDismemberSkinInstance::PartitionInfo> pi;
			std::vector<int> tp;
			if (!w.nif->GetShapePartitions(shape, pi, tp) || pi.size() == 0) { stepNo++; continue; }
			uint64_t mask = ju64(st, "which", 1);
			std::vector<uint32_t> del;
			for (uint32_t p = 0; p < pi.size(); p++)
				if ((mask >> (p % 60)) & 1) del.push_back(p);
			if (del.empty()) del.push_back(uint32_t(mask % pi.size()));
			w.nif->DeletePartitions(shape, del);
			ctx.probe("partitions_deleted", (long) del.size());
			// the documented flow: orphaned triangles are then reassigned
			w.nif->GetShapePartitions(shape, pi, tp);
			w.nif->SetShapePartitions(shape, pi, tp);
			ctx.sig.tag("delparts"); ctx.sig.i((long long) del.size());
			shape = w.nif->GetShapes()[sidx];
			pf.coverInvalid[sidx] = false;
			pf.notRebuilt[sidx] = true;
			if (!blindOp && prop_is(ctx, "C10")) checkPartitions(*w.nif, shape, ctx, where, false);
		}
		else if (op == "RemoveEmptyPartitions") {
			if (!shape) { stepNo++; continue; }
			size_t beforeN = 0;
			if (auto si = w.nif->GetHeader().GetBlock<NiSkinInstance>(shape->SkinInstanceRef()))
				if (auto sp = w.nif->GetHeader().GetBlock(si->skinPartitionRef)) beforeN = sp->partitions.size();
			w.nif->RemoveEmptyPartitions(shape);
			if (auto si = w.nif->GetHeader().GetBlock<NiSkinInstance>(shape->SkinInstanceRef()))
				if (auto sp = w.nif->GetHeader().GetBlock(si->skinPartitionRef))
					if (sp->partitions.size() < beforeN) ctx.probe("partition_emptied_and_removed");
			ctx.sig.tag("rmempty");
			if (!blindOp && prop_is(ctx, "C10") && pf.cover(sidx)) checkPartitions(*w.nif, shape, ctx, where, false);
		}
		else if (op == "SetSegments") {
			auto sits = dynamic_cast<BSSubIndexTriShape*>(shape);
			if (!sits || sits->GetNumTriangles() == 0) { stepNo++; continue; } // nothing to label on an emptied shape
			Rng r(ju64(st, "salt", 1) * 131 + 7);
			std::vector<int> subsPer;
			for (auto& v : st["subs"]) subsPer.push_back(v.get<int>() % 4);
			if (subsPer.empty()) subsPer.push_back(0);
			int cnt = 0;
			for (auto n : subsPer) cnt += 1 + n;
			std::vector<int> ids(cnt);
			for (int i = 0; i < cnt; i++) ids[i] = i;
			if (jbool(st, "permute", false)) { for (int i = cnt - 1; i > 0; i--) std::swap(ids[i], ids[r.below(uint32_t(i + 1))]); ctx.probe("permuted_ids"); }
			NifSegmentationInfo inf;
			std::vector<int> leaves, ownWithSubs;
			std::map<int, int> ren;
			int k = 0, newId = 0;
			for (auto n : subsPer) {
				NifSegmentInfo si;
				si.partID = ids[k++];
				ren[si.partID] = newId++;
				for (int j = 0; j < n; j++) {
					NifSubSegmentInfo ss;
					ss.partID = ids[k++];
					ren[ss.partID] = newId++;
					ss.userSlotID = r.chance(0.5) ? 30 + r.below(20) : 0;
					ss.material = r.below(1000);
					if (r.chance(0.4)) ss.extraData = {1.0f, 2.0f};
					si.subs.push_back(ss);
					leaves.push_back(ss.partID);
				}
				if (n == 0) leaves.push_back(si.partID);
				else ownWithSubs.push_back(si.partID);
				inf.segs.push_back(si);
			}
			inf.ssfFile = jbool(st, "ssf", false) ? "Meshes\\verif.ssf" : "";
			bool un = jbool(st, "unassigned", false), parentLabels = jbool(st, "parent_labels", false), leaveEmpty = jbool(st, "leave_empty", false);
			uint32_t nt = sits->GetNumTriangles();
			std::vector<int> labels(nt);
			size_t usable = leaveEmpty && leaves.size() > 1 ? leaves.size() - 1 : leaves.size();
			for (auto& l : labels) {
				l = leaves[r.below(uint32_t(usable))];
				if (un && r.chance(0.15)) { l = -1; ctx.probe("label_unassigned"); }
				else if (parentLabels && !ownWithSubs.empty() && r.chance(0.15)) { l = ownWithSubs[r.below(uint32_t(ownWithSubs.size()))]; ctx.probe("label_on_segment_with_subsegments"); }
			}
			if (leaveEmpty && leaves.size() > 1) ctx.probe("segment_left_empty");
			std::vector<Triangle> before;
			sits->GetTriangles(before);
			NifFile::SetShapeSegments(shape, inf, labels);
			ctx.sig.tag("setsegs"); ctx.sig.i(cnt); ctx.sig.i(nt); ctx.sig.i(un); ctx.sig.i(parentLabels);
			if (nt > 0) ctx.nontrivial = true;
			// expectation: stable sort by renumbered label (unassigned sort as 0, any single range)
			std::vector<std::pair<int, size_t>> ord;
			for (size_t i = 0; i < labels.size(); i++) ord.push_back({labels[i] >= 0 ? ren[labels[i]] : 0, i});
			std::stable_sort(ord.begin(), ord.end(), [](auto& a, auto& b) { return a.first < b.first; });
			segx = SegExpect();
			segx.active = true;
			segx.shapeIdx = sidx;
			segx.nsegs = inf.segs.size();
			for (auto& sg : inf.segs) segx.nsubs.push_back(sg.subs.size());
			for (auto& o : ord) {
				segx.tris.push_back(before[o.second]);
				segx.labels.push_back(labels[o.second] >= 0 ? o.first : -2);
			}
			if (prop_is(ctx, "C17")) {
				std::vector<Triangle> after;
				sits->GetTriangles(after);
				std::multiset<TriKey> a, b;
				for (auto& t : before) a.insert({t.p1, t.p2, t.p3});
				for (auto& t : after) b.insert({t.p1, t.p2, t.p3});
				if (a != b) ctx.viol("seg:not-a-permutation", where + ": stored triangles are not a permutation of the previous ones");
				checkSegExpect(w, segx, where);
				checkSegmentRanges(*w.nif, shape, ctx, where);
			}
		}
		else if (op == "Check") {
			checkAll(w, where, false, &pf);
		}
		ctx.hist.u64(0x5e9);
		stepNo++;
	}
	setStage("final");
	// final observation enters the history hash (bytes of a raw save)
	SaveOut so = saveNif(*w.nif, SaveSpec());
	ctx.hist.str(so.bytes);
	setStage("dtor");
	w.nif.reset();
}

} // namespace sim
