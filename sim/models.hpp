// nifsim — reference models (harness-side shadows) and structural invariants of shapes.
#pragma once
#include "sim.hpp"
#include <tuple>

namespace sim {

using TriKey = std::tuple<int, int, int>;
inline TriKey canonTri(Triangle t) {
	t.rot();
	return {t.p1, t.p2, t.p3};
}

struct ShapeSnap {
	std::string type, name;
	uint16_t nv = 0;
	std::vector<Vector3> verts, normals, tangents, bitangents;
	std::vector<Vector2> uvs;
	std::vector<Color4> colors;
	std::vector<float> eye;
	bool hasVerts = false, hasUV = false, hasN = false, hasT = false, hasBT = false, hasC = false, hasEye = false;
	bool triOk = false, isStrips = false;
	std::vector<Triangle> tris;
	std::vector<std::vector<uint16_t>> strips;
	std::vector<Triangle> stripTris; // strips expanded by the harness (naive definition, independent of the library's helper)
	// skin
	bool skinned = false;
	std::vector<std::string> bones;
	std::vector<std::map<uint16_t, float>> boneWeights;              // per bone, as GetShapeBoneWeights reports
	std::vector<std::vector<std::pair<uint8_t, float>>> vertWeights; // per vertex (BSTriShape vertData)
	std::vector<uint32_t> lockedNorm;
	bool hasLockedNorm = false;
	std::vector<float> dynamicW; // BSDynamicTriShape dynamicData count check
	size_t dynamicCount = 0;
	bool isDynamic = false;
	// FO4 segmentation / partitions as reported by the API
	bool hasSegs = false;
	NifSegmentationInfo segInfo;
	std::vector<int> segLabels;
	bool hasParts = false;
	std::vector<int> partLabels;
	std::vector<uint16_t> partIDs;
};

ShapeSnap snapShape(NifFile& nif, NiShape* shape);

// the naive vertex-deletion model: applies `del` (sorted, unique, in range) to a snapshot
ShapeSnap modelDeleteVerts(const ShapeSnap& s, const std::vector<uint16_t>& del);

// "every remaining index anywhere refers to an existing vertex; counters agree with containers"
void checkShapeIndices(NifFile& nif, NiShape* shape, Ctx& ctx, const std::string& where);

// C10: partitions cover the shape's triangles exactly once (+ full: maps, limits, weights, slots)
void checkPartitions(NifFile& nif, NiShape* shape, Ctx& ctx, const std::string& where, bool full);

// C17: segment / sub-segment ranges contiguous, ordered, within and summing to the triangle count
void checkSegmentRanges(NifFile& nif, NiShape* shape, Ctx& ctx, const std::string& where);

// comparison helpers (bit-exact unless a tolerance is given)
bool sameV3(const std::vector<Vector3>& a, const std::vector<Vector3>& b, float tol, size_t* at = nullptr);
bool sameV2(const std::vector<Vector2>& a, const std::vector<Vector2>& b, float tol, size_t* at = nullptr);
bool sameC4(const std::vector<Color4>& a, const std::vector<Color4>& b, float tol, size_t* at = nullptr);
std::string triStr(const Triangle& t);
std::vector<Triangle> expandStrips(const std::vector<std::vector<uint16_t>>& strips);

NiShape* shapeAt(NifFile& nif, uint64_t sel);      // k-th shape modulo count (nullptr if none)
std::vector<uint16_t> pickVerts(const json& spec, uint16_t nv); // selector -> sorted unique indices

} // namespace sim
