// nifsim — constructed models (DESIGN 4.3): built only through nifly's public API from a spec by value.
#pragma once
#include "sim.hpp"

namespace sim {

struct Mesh {
	std::vector<Vector3> v;
	std::vector<Triangle> t;
	std::vector<Vector2> uv;
	std::vector<Vector3> n;
	std::vector<Color4> c;
};

// nv vertices, up to nt pairwise distinct (up to rotation), non-degenerate, in-range triangles.
// halfExact: coordinates are multiples of 1/8 in [-16,16] and UVs multiples of 1/256 (exactly
// representable as half floats), so that versions storing halves can be compared bit for bit.
Mesh makeMesh(uint32_t nv, uint32_t nt, uint64_t salt, bool halfExact);

// Adds one shape described by `s` to nif (version taken from the model). Returns the shape or nullptr.
NiShape* buildShape(NifFile& nif, const json& s, Ctx& ctx);

} // namespace sim
