// nifsim — run context, hook glue, save/load through simulated streams, world of slots.
#pragma once
#include <NifFile.hpp>
#include <nlohmann/json.hpp>
#include "common.hpp"
#include "nifparse.hpp"
#include <functional>
#include <memory>
#include <sstream>

namespace sim {
using json = nlohmann::json;
using namespace nifly;

struct Violation {
	std::string cls, msg;
};

// page shared between the run (forked child) and the zygote parent
struct Progress {
	volatile int step;
	volatile int caseIdx;
	volatile long ubsan;
	char stage[64];
	char ubsanFirst[512];
};
extern Progress* g_progress;
void setStage(const char* s);

struct Ctx {
	std::string property;
	Hash64 hist;
	Hash64 sig;
	bool nontrivial = false;
	std::map<std::string, long> probes, faults;
	json notes = json::array();
	json info;   // free-form result payload (describe, counters)
	long steps = 0;
	bool ubsanIsViolation = false;

	[[noreturn]] void viol(const std::string& cls, const std::string& msg) { throw Violation{property + "/" + cls, msg}; }
	void probe(const std::string& name, long n = 1) { probes[name] += n; }
	void fault(const std::string& name, long n = 1) { faults[name] += n; }
	void note(const std::string& s) { if (notes.size() < 20) notes.push_back(s); }
	// called after anything that may have produced UBSan reports
	void checkUbsan(const char* where);
};

// ---------------------------------------------------------------------------------------------
// Hook glue
struct FieldRec { uint32_t off; uint8_t kind; uint32_t size; const char* type; };
struct RefRec { uint32_t off; NiRef* ref; const char* pretty; };
struct StrRec { uint32_t off; NiStringRef* ref; };

struct WriteMap {
	bool wantFields = false;
	std::vector<FieldRec> fields;
	std::vector<RefRec> refs;
	std::vector<StrRec> strs;
};

// target type name of a NiBlockRef<T>::Sync __PRETTY_FUNCTION__ ("... [T = nifly::NiNode]")
std::string refTargetType(const char* pretty);

// The object a restart loads the saved file into: a fresh one, or (F-REUSE) the object that wrote the file.
inline std::unique_ptr<NifFile> restartObject(std::unique_ptr<NifFile>& current, Ctx& ctx) {
	if (simReuseObject() && current) { ctx.fault("F-REUSE"); return std::move(current); }
	return std::make_unique<NifFile>();
}

struct SaveSpec {
	bool raw = true;                 // raw: optimize=false, sortBlocks=false
	size_t failAfter = std::string::npos;
	WriteMap* map = nullptr;
	bool keepLog = false;
	bool nonSeekable = false;        // the output stream cannot seek (pipe, socket, compressing stream): tellp() == -1
};
struct SaveOut {
	int rc = -1;
	std::string bytes;
	bool streamFailed = false;
	std::vector<std::pair<size_t, std::string>> log; // when keepLog
	size_t headerEnd = 0;                            // offset where block 0 starts (from the write map's first block)
	std::vector<size_t> blockStart;                  // by observation of Put calls? (filled via size table for >=20.2.0.5)
};
SaveOut saveNif(NifFile& nif, const SaveSpec& spec = SaveSpec());

struct LoadOut {
	int rc = -1;
	size_t consumed = 0;
	bool hitLimit = false;
	bool streamBad = false;
};
LoadOut loadNif(NifFile& nif, const std::string& bytes, size_t limit = std::string::npos, bool eio = false);

// serialise one block on its own (public Put), optionally recording refs/strings/fields
std::string putBlock(NiHeader& hdr, NiObject* obj, WriteMap* map = nullptr);

// registry of block type names, sorted
const std::vector<std::string>& allBlockTypes();

// samples read once in the zygote: name (e.g. "Skinned_SE") -> bytes. Inputs and expected files.
const std::map<std::string, std::string>& samples();
void loadSamples(const std::string& repo);

NiVersion versionByName(const std::string& name);
std::string versionName(const NiVersion& v);

// ---------------------------------------------------------------------------------------------
// profiles (one entry point each); they throw Violation
using ProfileFn = void (*)(const json& plan, Ctx& ctx);
ProfileFn findProfile(const std::string& name);

// helpers shared by profiles
using BatteryTrace = std::vector<std::pair<std::string, uint64_t>>;
// the query battery (5.3). trace: running hash after each group (to name the first group that differs);
// headerTables=false leaves out string-table / block-size accessors (storage details a save may legitimately normalise)
uint64_t batteryDigest(NifFile& nif, Ctx& ctx, uint64_t sampleSalt = 0, BatteryTrace* trace = nullptr, bool headerTables = true);

// initial state: {"sample":name} | {"synth":{...}} | {"builder":{...}} | {"create":version}
// returns bytes of a file (for sample/synth) or builds directly into nif.
bool makeInitial(const json& src, NifFile& nif, Ctx& ctx, std::string* fileBytes = nullptr);

inline int jint(const json& j, const char* k, int d = 0) { return j.contains(k) ? j[k].get<int>() : d; }
inline uint64_t ju64(const json& j, const char* k, uint64_t d = 0) { return j.contains(k) ? j[k].get<uint64_t>() : d; }
inline bool jbool(const json& j, const char* k, bool d = false) { return j.contains(k) ? j[k].get<bool>() : d; }
inline std::string jstr(const json& j, const char* k, const std::string& d = "") { return j.contains(k) ? j[k].get<std::string>() : d; }

std::string hex64(uint64_t v);
inline bool prop_is(const Ctx& c, const char* p) { return c.property == p; }

} // namespace sim
