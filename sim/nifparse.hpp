// nifparse — minimal independent NIF header/footer reader. Shares no code with nifly: it knows
// only the published header layout (niftools nif.xml) for the Bethesda version range.
#pragma once
#include <cstdint>
#include <cstring>
#include <string>
#include <vector>

namespace nifparse {

struct Parsed {
	bool ok = false;
	std::string err;
	uint32_t ver = 0, user = 0, stream = 0, numBlocks = 0;
	uint8_t endian = 1;
	bool hasBS = false;
	std::vector<std::string> types;
	std::vector<size_t> typeNameOff;  // offset of the 4-byte length of each type name
	std::vector<uint16_t> typeIdx;
	bool hasSizes = false;
	std::vector<uint32_t> sizes;
	size_t sizeTableOff = 0;
	bool hasStrings = false;
	uint32_t numStrings = 0, maxStringLen = 0;
	size_t stringTableOff = 0;
	std::vector<std::string> strings;
	std::vector<uint32_t> groups;
	size_t headerEnd = 0;             // offset of the first block payload
	std::vector<size_t> blockOff;     // by size table (only when hasSizes)
	size_t blocksEnd = 0;             // offset just after the last payload (only when hasSizes)
	bool footerOk = false;            // 8-byte footer "01 00 00 00 00 00 00 00" at blocksEnd and EOF after it
	size_t total = 0;

	const std::string& typeOf(size_t i) const { return types[typeIdx[i]]; }
};

struct Rd {
	const std::string& b;
	size_t o = 0;
	bool bad = false;
	explicit Rd(const std::string& s) : b(s) {}
	template<typename T> T get() {
		T v{};
		if (o + sizeof(T) > b.size()) { bad = true; o = b.size(); return v; }
		memcpy(&v, &b[o], sizeof(T));
		o += sizeof(T);
		return v;
	}
	std::string bytes(size_t n) {
		if (o + n > b.size()) { bad = true; o = b.size(); return {}; }
		std::string s = b.substr(o, n);
		o += n;
		return s;
	}
};

inline bool isBethesda(uint32_t ver, uint32_t user) {
	if (ver == 0x14020007 && user >= 11) return true;
	if ((ver == 0x0A01006A || ver == 0x0A020000) && user >= 3 && user < 11) return true;
	if (ver == 0x14000004 && (user == 10 || user == 11)) return true;
	if (ver == 0x14000005 && user == 11) return true;
	return false;
}

inline Parsed parse(const std::string& b) {
	Parsed p;
	p.total = b.size();
	size_t nl = b.find('\n');
	if (nl == std::string::npos || nl > 127) { p.err = "no header line"; return p; }
	std::string line = b.substr(0, nl);
	if (line.find("Gamebryo File Format") == std::string::npos && line.find("NetImmerse File Format") == std::string::npos) { p.err = "bad magic"; return p; }
	Rd r(b);
	r.o = nl + 1;
	p.ver = r.get<uint32_t>();
	if (p.ver >= 0x14000003) p.endian = r.get<uint8_t>();
	if (p.ver >= 0x0A000108) p.user = r.get<uint32_t>();
	p.numBlocks = r.get<uint32_t>();
	if (r.bad) { p.err = "short header"; return p; }
	if (p.numBlocks > 10000000) { p.err = "absurd block count"; return p; }
	p.hasBS = isBethesda(p.ver, p.user);
	if (p.hasBS) {
		p.stream = r.get<uint32_t>();
		uint8_t l = r.get<uint8_t>(); r.bytes(l);
		if (p.stream > 130) r.get<uint32_t>();
		l = r.get<uint8_t>(); r.bytes(l);
		l = r.get<uint8_t>(); r.bytes(l);
		if (p.stream == 130) { l = r.get<uint8_t>(); r.bytes(l); }
	}
	uint16_t nt = r.get<uint16_t>();
	for (unsigned i = 0; i < nt && !r.bad; i++) {
		p.typeNameOff.push_back(r.o);
		uint32_t l = r.get<uint32_t>();
		if (l > 4096) { p.err = "absurd type name"; return p; }
		p.types.push_back(r.bytes(l));
	}
	for (uint32_t i = 0; i < p.numBlocks && !r.bad; i++) p.typeIdx.push_back(r.get<uint16_t>());
	if (p.ver >= 0x14020005) {
		p.hasSizes = true;
		p.sizeTableOff = r.o;
		for (uint32_t i = 0; i < p.numBlocks && !r.bad; i++) p.sizes.push_back(r.get<uint32_t>());
	}
	if (p.ver >= 0x14010001) {
		p.hasStrings = true;
		p.stringTableOff = r.o;
		p.numStrings = r.get<uint32_t>();
		p.maxStringLen = r.get<uint32_t>();
		for (uint32_t i = 0; i < p.numStrings && !r.bad; i++) {
			uint32_t l = r.get<uint32_t>();
			if (l > (1u << 24)) { p.err = "absurd string"; return p; }
			p.strings.push_back(r.bytes(l));
		}
	}
	uint32_t ng = r.get<uint32_t>();
	for (uint32_t i = 0; i < ng && !r.bad; i++) p.groups.push_back(r.get<uint32_t>());
	if (r.bad) { p.err = "header runs past EOF"; return p; }
	for (auto ti : p.typeIdx)
		if (ti >= p.types.size()) { p.err = "type index out of table"; return p; }
	p.headerEnd = r.o;
	if (p.hasSizes) {
		size_t o = p.headerEnd;
		for (uint32_t i = 0; i < p.numBlocks; i++) { p.blockOff.push_back(o); o += p.sizes[i]; }
		p.blocksEnd = o;
		static const char foot[8] = {1, 0, 0, 0, 0, 0, 0, 0};
		p.footerOk = (o + 8 == b.size()) && memcmp(&b[o], foot, 8) == 0;
	}
	p.ok = true;
	return p;
}

inline std::string payload(const std::string& b, const Parsed& p, size_t i) { return b.substr(p.blockOff[i], p.sizes[i]); }

} // namespace nifparse
