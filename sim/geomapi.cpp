// nifsim — C13: geometry written through the API is what is read back, in every version
// (create/set/get histories with restarts against the mesh model and the quantisation table).
#include "models.hpp"
#include "builders.hpp"
#include <cmath>

namespace sim {

enum Q { Q_EXACT, Q_HALF, Q_UNORM8, Q_COLOR8 };

static float tolOf(Q q, float x) {
	switch (q) {
		case Q_EXACT: return 0.0f;
		case Q_HALF: return std::fabs(x) / 1024.0f + 6.2e-8f; // half float: 10 mantissa bits; smallest subnormal step 2^-24
		case Q_UNORM8: return 1.0f / 255.0f + 1e-6f;             // round((n+1)/2*255) -> step 2/255, error <= 1/255
		case Q_COLOR8: return 1.0f / 255.0f + 1.0f / 256.0f;    // floor(256 c) / 255
	}
	return 0;
}
static bool close(float got, float want, Q q) {
	if (q == Q_EXACT) return memcmp(&got, &want, 4) == 0 || (got == 0.0f && want == 0.0f);
	return std::fabs(got - want) <= tolOf(q, want);
}

struct Attr {
	bool present = false;
	std::vector<float> v; // flattened
	int width = 0;
	Q q[4] = {Q_EXACT, Q_EXACT, Q_EXACT, Q_EXACT};
};

struct GeoModel {
	uint16_t nv = 0;
	Attr pos, uv, nrm, tan, bit, col, eye;
	std::vector<Triangle> tris;
	bool hasBounds = false;
	BoundingSphere bounds;
};

static void cmpAttr1(Ctx& ctx, const std::string& where, const char* name, const Attr& want, const std::vector<float>* got, size_t gotCount, uint16_t nv) {
	if (!want.present) return;
	if (!got) ctx.viol(std::string("attr-missing:") + name, where + ": " + name + " were set but the getter returns nothing");
	if (gotCount != nv) ctx.viol(std::string("attr-count:") + name, where + ": " + name + " getter returns " + std::to_string(gotCount) + " entries for " + std::to_string(nv) + " vertices");
	for (size_t i = 0; i < want.v.size() && i < got->size(); i++)
		if (!close((*got)[i], want.v[i], want.q[i % size_t(want.width)]))
			ctx.viol(std::string("attr-value:") + name, where + ": " + name + " of vertex " + std::to_string(i / size_t(want.width)) + " component " + std::to_string(i % size_t(want.width)) + " reads " + std::to_string((*got)[i]) + ", written " + std::to_string(want.v[i]) + " (tolerance " + std::to_string(tolOf(want.q[i % size_t(want.width)], want.v[i])) + ")");
}

template<typename T> static std::vector<float> flat3(const std::vector<T>& v) { std::vector<float> f; for (auto& e : v) { f.push_back(e.x); f.push_back(e.y); f.push_back(e.z); } return f; }

static void checkAgainst(NifFile& nif, NiShape* s, const GeoModel& m, Ctx& ctx, const std::string& where) {
	if (s->GetNumVertices() != m.nv) ctx.viol("vertex-count", where + ": GetNumVertices=" + std::to_string(s->GetNumVertices()) + " expected " + std::to_string(m.nv));
	{
		std::vector<Vector3> v;
		bool ok = nif.GetVertsForShape(s, v);
		auto f = flat3(v);
		cmpAttr1(ctx, where, "positions", m.pos, ok ? &f : nullptr, v.size(), m.nv);
		auto pv = nif.GetVertsForShape(s);
		if (m.pos.present && (!pv || pv->size() != m.nv)) ctx.viol("attr-count:positions(ptr)", where + ": pointer getter returns " + std::to_string(pv ? pv->size() : 0) + " positions");
	}
	{
		std::vector<Vector2> v;
		bool ok = nif.GetUvsForShape(s, v);
		std::vector<float> f;
		for (auto& e : v) { f.push_back(e.u); f.push_back(e.v); }
		cmpAttr1(ctx, where, "uvs", m.uv, ok ? &f : nullptr, v.size(), m.nv);
		auto pu = nif.GetUvsForShape(s); // pointer form
		std::vector<float> fp;
		if (pu) for (auto& e : *pu) { fp.push_back(e.u); fp.push_back(e.v); }
		cmpAttr1(ctx, where, "uvs(ptr)", m.uv, pu && !pu->empty() ? &fp : nullptr, pu ? pu->size() : 0, m.nv);
	}
	{
		auto pn = nif.GetNormalsForShape(s);
		std::vector<float> f = pn ? flat3(*pn) : std::vector<float>();
		cmpAttr1(ctx, where, "normals", m.nrm, pn && !pn->empty() ? &f : nullptr, pn ? pn->size() : 0, m.nv);
	}
	{
		std::vector<Vector3> v;
		bool ok = nif.GetTangentsForShape(s, v);
		auto f = flat3(v);
		cmpAttr1(ctx, where, "tangents", m.tan, ok ? &f : nullptr, v.size(), m.nv);
		ok = nif.GetBitangentsForShape(s, v);
		f = flat3(v);
		cmpAttr1(ctx, where, "bitangents", m.bit, ok ? &f : nullptr, v.size(), m.nv);
		// pointer forms (they go through cached raw copies for BSTriShape)
		auto pt = nif.GetTangentsForShape(s);
		std::vector<float> ft = pt ? flat3(*pt) : std::vector<float>();
		cmpAttr1(ctx, where, "tangents(ptr)", m.tan, pt && !pt->empty() ? &ft : nullptr, pt ? pt->size() : 0, m.nv);
		auto pb = nif.GetBitangentsForShape(s);
		std::vector<float> fb = pb ? flat3(*pb) : std::vector<float>();
		cmpAttr1(ctx, where, "bitangents(ptr)", m.bit, pb && !pb->empty() ? &fb : nullptr, pb ? pb->size() : 0, m.nv);
	}
	{
		std::vector<Color4> v;
		bool ok = nif.GetColorsForShape(s, v);
		std::vector<float> f;
		for (auto& e : v) { f.push_back(e.r); f.push_back(e.g); f.push_back(e.b); f.push_back(e.a); }
		cmpAttr1(ctx, where, "colors", m.col, ok ? &f : nullptr, v.size(), m.nv);
		auto pc = nif.GetColorsForShape(s);
		std::vector<float> fc;
		if (pc) for (auto& e : *pc) { fc.push_back(e.r); fc.push_back(e.g); fc.push_back(e.b); fc.push_back(e.a); }
		cmpAttr1(ctx, where, "colors(ptr)", m.col, pc && !pc->empty() ? &fc : nullptr, pc ? pc->size() : 0, m.nv);
	}
	{
		std::vector<float> v;
		bool ok = NifFile::GetEyeDataForShape(s, v);
		cmpAttr1(ctx, where, "eyedata", m.eye, ok ? &v : nullptr, v.size(), m.nv);
		auto pe = nif.GetEyeDataForShape(s);
		cmpAttr1(ctx, where, "eyedata(ptr)", m.eye, pe && !pe->empty() ? pe : nullptr, pe ? pe->size() : 0, m.nv);
	}
	std::vector<Triangle> t;
	s->GetTriangles(t);
	if (t.size() != m.tris.size()) ctx.viol("triangle-count", where + ": " + std::to_string(t.size()) + " triangles read back, " + std::to_string(m.tris.size()) + " written");
	for (size_t i = 0; i < t.size(); i++)
		if (!(t[i] == m.tris[i])) ctx.viol("triangle-order", where + ": triangle " + std::to_string(i) + " reads " + triStr(t[i]) + ", written " + triStr(m.tris[i]));
	if (s->GetNumTriangles() != m.tris.size()) ctx.viol("triangle-count", where + ": GetNumTriangles=" + std::to_string(s->GetNumTriangles()));
	if (m.hasBounds) {
		auto b = s->GetBounds();
		if (!close(b.radius, m.bounds.radius, Q_EXACT) || !close(b.center.x, m.bounds.center.x, Q_EXACT)) ctx.viol("bounds", where + ": bounds read back differ from the ones set");
	}
	checkShapeIndices(nif, s, ctx, where);
}

void profile_geomapi(const json& plan, Ctx& ctx) {
	auto nif = std::make_unique<NifFile>();
	std::string vname = jstr(plan, "version", "SSE");
	NiVersion ver = versionByName(vname);
	nif->Create(ver);
	bool bs = ver.IsSSE() || ver.IsFO4() || ver.IsFO76();
	bool halfPos = ver.IsFO4() || ver.IsFO76();
	uint32_t nv = uint32_t(jint(plan, "nv", 10)), nt = uint32_t(jint(plan, "nt", 10));
	uint64_t salt = ju64(plan, "salt", 1);
	bool wantUV = jbool(plan, "uv", true), wantN = jbool(plan, "normals", true);
	Mesh mesh = makeMesh(nv, nt, salt, jbool(plan, "halfexact", false));
	// documented limit: 65535 before FO4 (also SSE), 2^32-1 from FO4 on (GetTriangleLimit itself answers 2^32-1 for OB/FO3,
	// whose triangle counter is 16 bit wide: the documentation is followed)
	size_t triLimit = (ver.IsFO4() || ver.IsFO76()) ? nif->GetTriangleLimit() : std::min<size_t>(nif->GetTriangleLimit(), 65535);
	if (mesh.t.size() > triLimit) mesh.t.resize(triLimit);
	setStage("create");
	NiShape* s = nif->CreateShapeFromData("shape", &mesh.v, &mesh.t, wantUV ? &mesh.uv : nullptr, wantN ? &mesh.n : nullptr);
	if (!s) { ctx.info["rejected_init"] = true; return; }
	ctx.sig.str(vname); ctx.sig.i(nv); ctx.sig.i((long long) mesh.t.size()); ctx.sig.i(wantUV); ctx.sig.i(wantN);
	ctx.nontrivial = true;
	if (nv == 65535) ctx.probe("vertex_limit_mesh");
	if (mesh.t.size() > 65535) ctx.probe("triangle_count_above_16_bit");
	if (nv <= 2) ctx.probe("tiny_mesh");
	bool fullprec = false;
	bool posRounded = false; // positions have been through a half-precision file since they were last set
	GeoModel m;
	m.nv = uint16_t(nv);
	auto setPos = [&](const std::vector<Vector3>& v) { m.pos.present = true; m.pos.width = 3; m.pos.v = flat3(v); };
	auto setN = [&](Attr& a, const std::vector<Vector3>& v) { a.present = true; a.width = 3; a.v = flat3(v); for (auto& q : a.q) q = bs ? Q_UNORM8 : Q_EXACT; };
	setPos(mesh.v);
	m.tris = mesh.t;
	if (wantUV) { m.uv.present = true; m.uv.width = 2; for (auto& e : mesh.uv) { m.uv.v.push_back(e.u); m.uv.v.push_back(e.v); } }
	if (wantN) setN(m.nrm, mesh.n);
	auto storedForm = [&]() {
		// what the storage form of this version may do to a value once it has been through a file
		if (halfPos && !fullprec) { for (auto& q : m.pos.q) q = Q_HALF; posRounded = true; }
		if (bs) for (auto& q : m.uv.q) q = Q_HALF;
		if (bs && halfPos && !fullprec && m.bit.present) m.bit.q[0] = Q_HALF;
	};
	checkAgainst(*nif, s, m, ctx, "after CreateShapeFromData");
	Rng r(salt * 977 + 13);
	int stepNo = 0;
	for (auto& st : plan["steps"]) {
		if (g_progress) g_progress->step = stepNo;
		std::string op = jstr(st, "op");
		std::string where = "step " + std::to_string(stepNo) + " " + op + " [" + vname + " " + s->GetBlockName() + "]";
		setStage(op.c_str());
		ctx.hist.tag(op.c_str());
		ctx.steps++;
		Mesh fresh = makeMesh(nv, 0, ju64(st, "salt", 1), jbool(st, "halfexact", false));
		if (op == "SetVerts") { nif->SetVertsForShape(s, fresh.v); setPos(fresh.v); for (auto& q : m.pos.q) q = Q_EXACT; posRounded = false; }
		else if (op == "SetUVs") {
			nif->SetUvsForShape(s, fresh.uv);
			m.uv = Attr(); m.uv.present = true; m.uv.width = 2;
			for (auto& e : fresh.uv) { m.uv.v.push_back(e.u); m.uv.v.push_back(e.v); }
		}
		else if (op == "SetNormals") { nif->SetNormalsForShape(s, fresh.n); setN(m.nrm, fresh.n); }
		else if (op == "SetTangents") {
			if (!m.nrm.present || (bs && !m.uv.present)) { stepNo++; continue; }
			nif->SetTangentsForShape(s, fresh.n);
			setN(m.tan, fresh.n);
			std::vector<Vector3> bt = fresh.n;
			std::reverse(bt.begin(), bt.end());
			nif->SetBitangentsForShape(s, bt);
			setN(m.bit, bt);
			if (bs) m.bit.q[0] = Q_EXACT; // bitangent x is kept as a float
			ctx.probe("set_tangents");
		}
		else if (op == "SetColors") {
			nif->SetColorsForShape(s, fresh.c);
			m.col = Attr(); m.col.present = true; m.col.width = 4;
			for (auto& e : fresh.c) { m.col.v.push_back(e.r); m.col.v.push_back(e.g); m.col.v.push_back(e.b); m.col.v.push_back(e.a); }
			for (auto& q : m.col.q) q = bs ? Q_COLOR8 : Q_EXACT;
			ctx.probe("set_colors");
		}
		else if (op == "SetEyeData") {
			if (!bs) { stepNo++; continue; }
			std::vector<float> e(nv);
			for (auto& x : e) x = r.below(17) / 16.0f;
			NifFile::SetEyeDataForShape(s, e);
			m.eye = Attr(); m.eye.present = true; m.eye.width = 1; m.eye.v = e;
			ctx.probe("set_eyedata");
		}
		else if (op == "SetTriangles") {
			Mesh t2 = makeMesh(nv, uint32_t(ju64(st, "nt", nt)), ju64(st, "salt", 1), false);
			if (t2.t.size() > triLimit) t2.t.resize(triLimit);
			s->SetTriangles(t2.t);
			m.tris = t2.t;
			ctx.probe("set_triangles");
		}
		else if (op == "SetBounds") {
			BoundingSphere b;
			b.center = Vector3(r.range(-5.f, 5.f), r.range(-5.f, 5.f), r.range(-5.f, 5.f));
			b.radius = r.range(0.f, 100.f);
			s->SetBounds(b);
			m.hasBounds = true;
			m.bounds = b;
		}
		else if (op == "FullPrecision") {
			auto b = dynamic_cast<BSTriShape*>(s);
			if (!b || !halfPos) { stepNo++; continue; }
			b->SetFullPrecision(true);
			fullprec = true;
			if (!posRounded) for (auto& q : m.pos.q) q = Q_EXACT; // values already rounded by an earlier restart stay within the half tolerance of what was written
			ctx.probe("full_precision");
			stepNo++;
			continue;
		}
		else if (op == "Restart") {
			SaveSpec sp; // raw: bounds are kept
			SaveOut so = saveNif(*nif, sp);
			ctx.hist.str(so.bytes);
			auto fresh2 = restartObject(nif, ctx);
			if (loadNif(*fresh2, so.bytes).rc != 0) ctx.viol("restart-load-failed", where);
			nif = std::move(fresh2);
			auto shapes = nif->GetShapes();
			if (shapes.size() != 1) ctx.viol("restart-shape-count", where + ": " + std::to_string(shapes.size()) + " shapes after reload");
			s = shapes[0];
			storedForm();
			ctx.fault("F-RESTART");
		}
		else { stepNo++; continue; }
		ctx.sig.tag(op.c_str());
		checkAgainst(*nif, s, m, ctx, where);
		stepNo++;
	}
	setStage("dtor");
}

} // namespace sim
