// nifsim — multi-actor profiles: C11 (a copied model is equal to and independent of its source) and
// C14 (cloning a shape yields a self-contained copy). Several live models ("nodes") are driven by a
// seeded interleaving of steps, including the order in which they are destroyed.
#include "models.hpp"
#include "edits.hpp"

namespace sim {

struct Obs {
	bool usable = false;
	std::string bytes;
	uint64_t geom = 0;
};

// geometry reached through shapes (values only)
static uint64_t geomDigest(NifFile& nif) {
	Hash64 h;
	for (auto s : nif.GetShapes()) {
		h.str(s->name.get());
		h.i(s->GetNumVertices());
		std::vector<Triangle> t;
		s->GetTriangles(t);
		h.i((long long) t.size());
		for (auto& x : t) { h.i(x.p1); h.i(x.p2); h.i(x.p3); }
		std::vector<Vector3> v;
		nif.GetVertsForShape(s, v);
		for (auto& p : v) { h.f(p.x); h.f(p.y); h.f(p.z); }
		auto b = s->GetBounds();
		h.f(b.radius);
	}
	return h.h;
}

// self-stabilising observation (DESIGN 5.2): what does the model write? taken twice; unusable if unstable (that is C02's business)
static Obs observe(NifFile& nif, Ctx& ctx) {
	Obs o;
	SaveOut a = saveNif(nif, SaveSpec());
	SaveOut b = saveNif(nif, SaveSpec());
	o.usable = a.bytes == b.bytes;
	if (!o.usable) ctx.probe("observation_unstable_attributed_to_C02");
	o.bytes = b.bytes;
	o.geom = geomDigest(nif);
	return o;
}

std::string diffWhere(const std::string& a, const std::string& b, std::string* detail); // roundtrip.cpp

void profile_copy(const json& plan, Ctx& ctx) {
	std::vector<std::unique_ptr<NifFile>> slot(4);
	slot[0] = std::make_unique<NifFile>();
	setStage("init");
	if (!makeInitial(plan["init"], *slot[0], ctx)) { ctx.info["rejected_init"] = true; ctx.probe("rejected_input"); return; }
	ctx.sig.str(plan["init"].dump());
	int stepNo = 0;
	std::string actorTrace;
	for (auto& st : plan["steps"]) {
		if (g_progress) g_progress->step = stepNo;
		std::string op = jstr(st, "op");
		std::string where = "step " + std::to_string(stepNo) + " " + op;
		setStage(op.c_str());
		ctx.hist.tag(op.c_str());
		ctx.steps++;
		size_t a = size_t(jint(st, "slot", 0)) % slot.size();
		if (op == "Copy") {
			size_t from = size_t(jint(st, "from", 0)) % slot.size(), to = size_t(jint(st, "to", 1)) % slot.size();
			if (!slot[from] || from == to) { stepNo++; continue; }
			std::string how = jstr(st, "how", "ctor");
			if (how == "ctor") slot[to] = std::make_unique<NifFile>(*slot[from]);
			else {
				if (how == "assign_loaded") {
					slot[to] = std::make_unique<NifFile>();
					if (!makeInitial(st["loaded"], *slot[to], ctx)) slot[to] = std::make_unique<NifFile>();
					else ctx.probe("assigned_over_loaded_model");
				}
				else if (!slot[to] || how == "assign_empty") slot[to] = std::make_unique<NifFile>();
				*slot[to] = *slot[from];
			}
			ctx.sig.tag("copy"); ctx.sig.str(how);
			actorTrace += "C" + std::to_string(from) + std::to_string(to);
			// right after copying: the copy saves to the same bytes as the source
			setStage("copy:compare");
			SaveOut sa = saveNif(*slot[from], SaveSpec());
			SaveOut sb = saveNif(*slot[to], SaveSpec());
			ctx.hist.str(sb.bytes);
			if (sa.bytes != sb.bytes) {
				SaveOut sa2 = saveNif(*slot[from], SaveSpec());
				if (sa2.bytes != sa.bytes) ctx.probe("observation_unstable_attributed_to_C02");
				else {
					std::string d;
					std::string w = diffWhere(sa.bytes, sb.bytes, &d);
					ctx.viol("copy-saves-differently:" + w, where + ": raw save of the copy differs from raw save of the source (" + d + ")");
				}
			}
			ctx.nontrivial = true;
		}
		else if (op == "Edit" || op == "Save" || op == "Query") {
			if (!slot[a]) { stepNo++; continue; }
			// observe every other live model around the step
			std::vector<Obs> before(slot.size());
			for (size_t y = 0; y < slot.size(); y++)
				if (y != a && slot[y]) before[y] = observe(*slot[y], ctx);
			setStage((op + ":apply").c_str());
			bool took = true;
			if (op == "Edit") took = applyEdit(*slot[a], st["edit"], ctx);
			else if (op == "Save") { SaveSpec sp; sp.raw = jbool(st, "raw", true); SaveOut so = saveNif(*slot[a], sp); ctx.hist.str(so.bytes); }
			else ctx.hist.u64(batteryDigest(*slot[a], ctx, 1, nullptr, false));
			if (took) { ctx.sig.tag(op.c_str()); if (op == "Edit") ctx.sig.str(jstr(st["edit"], "op")); ctx.sig.i((long long) a); }
			actorTrace += op.substr(0, 1) + std::to_string(a);
			setStage((op + ":observe-others").c_str());
			for (size_t y = 0; y < slot.size(); y++) {
				if (y == a || !slot[y]) continue;
				Obs after = observe(*slot[y], ctx);
				if (before[y].usable && after.usable && before[y].bytes != after.bytes) {
					std::string d;
					std::string w = diffWhere(before[y].bytes, after.bytes, &d);
					ctx.viol("other-model-changed:" + w, where + " on model " + std::to_string(a) + (op == "Edit" ? " (" + jstr(st["edit"], "op") + ")" : "") + " changed what model " + std::to_string(y) + " writes (" + d + ")");
				}
				if (before[y].geom != after.geom)
					ctx.viol("other-model-geometry-changed", where + " on model " + std::to_string(a) + " changed geometry reached through shapes of model " + std::to_string(y));
				ctx.probe("independence_checked");
			}
		}
		else if (op == "Destroy") {
			size_t live = 0;
			for (auto& s : slot) if (s) live++;
			if (!slot[a] || live < 2) { stepNo++; continue; }
			std::vector<Obs> before(slot.size());
			for (size_t y = 0; y < slot.size(); y++)
				if (y != a && slot[y]) before[y] = observe(*slot[y], ctx);
			setStage("Destroy:dtor");
			slot[a].reset();
			ctx.fault("actor_destroyed");
			ctx.sig.tag("destroy"); ctx.sig.i((long long) a);
			actorTrace += "D" + std::to_string(a);
			setStage("Destroy:use-survivors");
			for (size_t y = 0; y < slot.size(); y++) {
				if (!slot[y]) continue;
				Obs after = observe(*slot[y], ctx);
				ctx.hist.u64(batteryDigest(*slot[y], ctx, 1, nullptr, false));
				if (before[y].usable && after.usable && before[y].bytes != after.bytes) ctx.viol("survivor-changed-by-destruction", where + ": destroying model " + std::to_string(a) + " changed what model " + std::to_string(y) + " writes");
				if (before[y].geom != after.geom) ctx.viol("survivor-geometry-changed-by-destruction", where);
				ctx.probe("survivor_used_after_destruction");
			}
		}
		stepNo++;
	}
	ctx.info["interleaving"] = actorTrace;
	setStage("final-dtor");
	// destruction order of whatever is left: plan-chosen
	if (jbool(plan, "destroy_reverse", false)) for (size_t i = slot.size(); i-- > 0;) slot[i].reset();
	else for (auto& s : slot) s.reset();
}

// ---------------------------------------------------------------------------------------------
// Renumbering-invariant content signature of the subgraph hanging off a block (C14).
struct SigCtx {
	NifFile& nif;
	const NiStringRef* maskName = nullptr;
	uint32_t rootId = NIF_NPOS; // the shape whose subgraph is signed: pointers back to it are labelled SELF (its name differs in a clone)
	bool skipGeometryBlocks = false; // model-space shader: CloneShape drops normals/tangents by design
	std::map<uint32_t, std::string> labels; // for diagnostics
};

static std::string nameOrType(NifFile& nif, uint32_t id) {
	auto o = nif.GetHeader().GetBlock<NiObject>(id);
	if (!o) return "<dangling:" + std::to_string(id) + ">";
	if (o == nif.GetRootNode()) return "ROOT";
	if (auto n = dynamic_cast<NiObjectNET*>(o)) return std::string(o->GetBlockName()) + ":" + n->name.get();
	return o->GetBlockName();
}

static uint64_t blockSig(SigCtx& sc, uint32_t id, std::set<uint32_t>& onPath, std::vector<std::string>* parts, int depth = 0) {
	auto& hdr = sc.nif.GetHeader();
	auto obj = hdr.GetBlock<NiObject>(id);
	Hash64 h;
	if (!obj) { h.tag("dangling"); return h.h; }
	h.str(obj->GetBlockName());
	if (depth > 64) return h.h;
	WriteMap wm;
	std::string bytes = putBlock(hdr, obj, &wm);
	std::set<NiRef*> childSet;
	obj->GetChildRefs(childSet);
	bool inlineStr = hdr.GetVersion().File() < V20_1_0_3;
	struct Fld { uint32_t off; int kind; size_t idx; };
	std::vector<Fld> flds;
	for (size_t i = 0; i < wm.refs.size(); i++) flds.push_back({wm.refs[i].off, 0, i});
	for (size_t i = 0; i < wm.strs.size(); i++) flds.push_back({wm.strs[i].off, 1, i});
	std::sort(flds.begin(), flds.end(), [](const Fld& a, const Fld& b) { return a.off < b.off; });
	bool geomBlock = dynamic_cast<NiShape*>(obj) || dynamic_cast<NiGeometryData*>(obj) || dynamic_cast<NiSkinPartition*>(obj); // SSE partitions hold a copy of the vertex data
	bool skipBytes = sc.skipGeometryBlocks && geomBlock;
	size_t pos = 0;
	onPath.insert(id);
	for (auto& f : flds) {
		if (f.off < pos || f.off + 4 > bytes.size()) continue;
		if (!skipBytes) h.add(bytes.data() + pos, f.off - pos);
		if (f.kind == 0) {
			NiRef* r = wm.refs[f.idx].ref;
			if (r->IsEmpty()) h.tag("<none>");
			else if (childSet.count(r)) {
				if (onPath.count(r->index)) h.tag("<cycle>");
				else {
					uint64_t cs = blockSig(sc, r->index, onPath, parts, depth + 1);
					h.u64(cs);
					if (parts) parts->push_back(std::string(size_t(depth), '>') + nameOrType(sc.nif, r->index) + "=" + hex64(cs));
				}
			}
			else {
				std::string t = r->index == sc.rootId ? std::string("SELF") : nameOrType(sc.nif, r->index);
				h.str("<ptr:" + t + ">");
				if (parts) parts->push_back(std::string(size_t(depth), '>') + std::string(obj->GetBlockName()) + ".ptr->" + t);
			}
			pos = f.off + 4;
		}
		else {
			NiStringRef* sr = wm.strs[f.idx].ref;
			if (sr == sc.maskName) h.tag("<name>");
			else h.str(sr->get());
			if (inlineStr) {
				uint32_t len = 0;
				memcpy(&len, &bytes[f.off], 4);
				pos = f.off + 4 + len;
			}
			else pos = f.off + 4;
		}
	}
	if (!skipBytes && pos < bytes.size()) h.add(bytes.data() + pos, bytes.size() - pos);
	if (parts) parts->push_back(std::string(size_t(depth), '>') + std::string(obj->GetBlockName()) + ".size=" + std::to_string(bytes.size()));
	onPath.erase(id);
	return h.h;
}

static uint64_t shapeSig(NifFile& nif, NiShape* s, bool skipGeom, std::vector<std::string>* parts) {
	SigCtx sc{nif};
	sc.maskName = &s->name;
	sc.skipGeometryBlocks = skipGeom;
	sc.rootId = nif.GetBlockID(s);
	std::set<uint32_t> onPath;
	return blockSig(sc, nif.GetBlockID(s), onPath, parts);
}

void profile_clone(const json& plan, Ctx& ctx) {
	auto S = std::make_unique<NifFile>();
	setStage("init");
	if (!makeInitial(plan["init"], *S, ctx)) { ctx.info["rejected_init"] = true; ctx.probe("rejected_input"); return; }
	ctx.sig.str(plan["init"].dump());
	if (ctx.info.is_object() && ctx.info.contains("type_name_mismatch"))
		ctx.viol("clone:block-registered-under-another-type", "a block of type " + ctx.info["type_name_mismatch"].get<std::string>() + ": the destination header of a clone (AddBlock) lists it as that other type");
	std::string destKind = jstr(plan, "dest", "same");
	std::unique_ptr<NifFile> Downed;
	NifFile* D = S.get();
	if (destKind == "fresh") {
		Downed = std::make_unique<NifFile>();
		Downed->Create(S->GetHeader().GetVersion());
		D = Downed.get();
	}
	else if (destKind == "other") {
		Downed = std::make_unique<NifFile>();
		if (!makeInitial(plan["dest_init"], *Downed, ctx)) { ctx.info["rejected_init"] = true; return; }
		auto &a = S->GetHeader().GetVersion(), &b = Downed->GetHeader().GetVersion();
		if (a.File() != b.File() || a.User() != b.User() || a.Stream() != b.Stream()) { ctx.info["rejected_init"] = true; ctx.probe("dest_version_mismatch"); return; }
		D = Downed.get();
	}
	ctx.sig.str(destKind);
	bool sameModel = D == S.get();
	std::vector<std::pair<std::string, uint64_t>> clones; // name in D -> signature of the source shape in stored form
	std::map<std::string, std::vector<std::string>> cloneParts;
	std::map<std::string, ShapeSnap> cloneStoredSnap;
	bool dstDefaultSaved = false; // a default save recomputes bounds / prunes: from then on only API-level equality is required
	std::string trace;
	int stepNo = 0, cloneNo = 0;
	for (auto& st : plan["steps"]) {
		if (g_progress) g_progress->step = stepNo;
		std::string op = jstr(st, "op");
		std::string where = "step " + std::to_string(stepNo) + " " + op;
		setStage(op.c_str());
		ctx.hist.tag(op.c_str());
		ctx.steps++;
		if (op == "Clone") {
			if (!S) { stepNo++; continue; }
			NiShape* src = shapeAt(*S, ju64(st, "shape", 0));
			if (!src) { stepNo++; continue; }
			std::string newName = "VClone" + std::to_string(cloneNo++);
			size_t srcIdx = 0;
			{ auto sh = S->GetShapes(); for (size_t k = 0; k < sh.size(); k++) if (sh[k] == src) srcIdx = k; }
			ShapeSnap srcSnap = snapShape(*S, src);
			bool msn = false;
			if (auto sh = S->GetShader(src)) {
				auto& v = S->GetHeader().GetVersion();
				msn = (v.IsSK() || v.IsSSE()) && sh->IsModelSpace();
			}
			S->FinalizeData(); // sizes and string indices as a save would compute them (public API, called by Save)
			std::vector<std::string> srcParts;
			uint64_t srcSig = shapeSig(*S, src, msn, &srcParts);
			std::vector<std::string> srcTex;
			for (auto& r : S->GetTexturePathRefs(src)) srcTex.push_back(r.get());
			// what the source shape looks like in stored (normal) form: the reference for "the clone is intact after a restart"
			uint64_t srcStoredSig = 0;
			std::vector<std::string> srcStoredParts;
			{
				SaveOut ss = saveNif(*S, SaveSpec());
				NifFile tmp;
				if (loadNif(tmp, ss.bytes).rc == 0) {
					auto sh = tmp.GetShapes();
					if (srcIdx < sh.size()) { srcStoredSig = shapeSig(tmp, sh[srcIdx], msn, &srcStoredParts); cloneStoredSnap[newName] = snapShape(tmp, sh[srcIdx]); }
				}
			}
			// observation of the source starts only now: several getters used above fill caches or convert strips
			Obs sBefore = sameModel ? Obs() : observe(*S, ctx);
			// the node the source hangs off, found by scanning every node's child list (independent of GetParentNode)
			auto parentByScan = [](NifFile& f, NiObject* child) -> NiNode* {
				uint32_t id = f.GetBlockID(child);
				auto& h = f.GetHeader();
				for (uint32_t i = 0; i < h.GetNumBlocks(); i++)
					if (auto nd = h.GetBlock<NiNode>(i))
						for (auto& cr : nd->childRefs)
							if (cr.index == id) return nd;
				return nullptr;
			};
			NiNode* srcParent = parentByScan(sameModel ? *D : *S, src);
			setStage("Clone:call");
			NiShape* c = D->CloneShape(src, newName, sameModel ? nullptr : S.get());
			if (!c) ctx.viol("clone-returned-null", where);
			trace += "K";
			ctx.sig.tag("clone"); ctx.sig.str(srcSnap.type); ctx.sig.i(srcSnap.skinned); ctx.sig.i(msn);
			ctx.nontrivial = true;
			if (msn) ctx.probe("cloned_model_space_shape");
			if (srcSnap.skinned) ctx.probe("cloned_skinned_shape");
			setStage("Clone:compare");
			if (sameModel) src = nullptr; // blocks may have moved
			ShapeSnap cs = snapShape(*D, c);
			auto fail = [&](const std::string& cls, const std::string& m) { ctx.viol(cls, where + " [" + srcSnap.type + " '" + srcSnap.name + "' -> '" + newName + "']: " + m); };
			// the clone is part of the destination's scene graph (a block no node refers to is dropped by the next default save):
			// within one model it hangs off the source's parent, in another model off the root
			{
				NiNode* cp = parentByScan(*D, c);
				if (sameModel) {
					if (srcParent && cp != srcParent) fail("clone:not-attached", std::string("the source hangs off node '") + srcParent->name.get() + "', the clone off " + (cp ? "'" + cp->name.get() + "'" : std::string("no node")));
				}
				else if (D->GetRootNode() && cp != D->GetRootNode()) fail("clone:not-attached", std::string("the clone hangs off ") + (cp ? "'" + cp->name.get() + "'" : std::string("no node")) + ", not off the destination's root");
			}
			size_t at = 0;
			if (cs.nv != srcSnap.nv) fail("clone:numVertices", std::to_string(cs.nv) + " vs " + std::to_string(srcSnap.nv));
			if (!sameV3(cs.verts, srcSnap.verts, 0, &at)) fail("clone:vertices", "positions differ at " + std::to_string((long) at));
			if (!sameV2(cs.uvs, srcSnap.uvs, 0, &at)) fail("clone:uvs", "UVs differ at " + std::to_string((long) at));
			if (!sameC4(cs.colors, srcSnap.colors, 0, &at)) fail("clone:colors", "colours differ");
			if (cs.tris.size() != srcSnap.tris.size()) fail("clone:triangles", "triangle count");
			for (size_t i = 0; i < cs.tris.size(); i++)
				if (!(cs.tris[i] == srcSnap.tris[i])) fail("clone:triangles", "triangle " + std::to_string(i));
			if (!msn) {
				if (!sameV3(cs.normals, srcSnap.normals, 0, &at)) fail("clone:normals", "normals differ at " + std::to_string((long) at));
				if (!sameV3(cs.tangents, srcSnap.tangents, 0, &at)) fail("clone:tangents", "tangents differ");
			}
			if (cs.vertWeights != srcSnap.vertWeights) fail("clone:vertWeights", "per-vertex weights differ");
			if (cs.bones != srcSnap.bones) fail("clone:bone-list", "bone list differs (" + std::to_string(cs.bones.size()) + " vs " + std::to_string(srcSnap.bones.size()) + ")");
			for (auto& bn : cs.bones)
				if (!D->FindBlockByName<NiNode>(bn)) fail("clone:bone-missing-in-destination", "bone '" + bn + "' is not a node of the destination");
			if (cs.boneWeights != srcSnap.boneWeights) fail("clone:boneWeights", "bone weights differ");
			std::vector<std::string> dstTex;
			for (auto& r : D->GetTexturePathRefs(c)) dstTex.push_back(r.get());
			if (dstTex != srcTex) fail("clone:textures", "texture paths differ");
			D->FinalizeData();
			std::vector<std::string> dstParts;
			uint64_t dstSig = shapeSig(*D, c, msn, &dstParts);
			if (dstSig != srcSig) {
				std::string d;
				for (size_t i = 0; i < srcParts.size() || i < dstParts.size(); i++) {
					std::string x = i < srcParts.size() ? srcParts[i] : "-", y = i < dstParts.size() ? dstParts[i] : "-";
					if (x != y) { d = "first differing part: source " + x + " / clone " + y; break; }
				}
				fail("clone:content-signature", "the blocks reachable from the clone do not carry the source's content (" + (d.empty() ? std::string("shape block fields differ") : d) + ")");
			}
			clones.push_back({newName, srcStoredSig});
			cloneParts[newName] = srcStoredParts;
			// source untouched
			if (!sameModel) {
				Obs sAfter = observe(*S, ctx);
				if (sBefore.usable && sAfter.usable && sBefore.bytes != sAfter.bytes) {
					std::string d2;
					std::string w = diffWhere(sBefore.bytes, sAfter.bytes, &d2);
					ctx.viol("clone:source-modified:" + w, where + ": cloning changed what the source model writes (" + d2 + ")");
				}
				if (sBefore.geom != sAfter.geom) ctx.viol("clone:source-geometry-modified", where);
				ctx.probe("source_observed");
			}
		}
		else if (op == "RestartDst") {
			SaveSpec sp;
			sp.raw = jbool(st, "raw", true);
			if (!sp.raw) dstDefaultSaved = true;
			SaveOut so = saveNif(*D, sp);
			ctx.hist.str(so.bytes);
			auto fresh = restartObject(sameModel ? S : Downed, ctx);
			if (loadNif(*fresh, so.bytes).rc != 0) ctx.viol("clone:destination-not-loadable", where + ": the destination does not reload after cloning");
			ctx.fault("F-RESTART");
			trace += "R";
			if (sameModel) { S = std::move(fresh); D = S.get(); }
			else { Downed = std::move(fresh); D = Downed.get(); }
			for (auto& cl : clones) {
				NiShape* c = D->FindBlockByName<NiShape>(cl.first);
				if (!c) ctx.viol("clone:lost-by-restart", where + ": clone '" + cl.first + "' is gone after save and reload");
				bool msn = false;
				if (auto sh = D->GetShader(c)) { auto& v = D->GetHeader().GetVersion(); msn = (v.IsSK() || v.IsSSE()) && sh->IsModelSpace(); }
				// geometry as the API reports it: equal to the source's in stored form (both went through one save and load)
				if (cloneStoredSnap.count(cl.first)) {
					const ShapeSnap& want = cloneStoredSnap[cl.first];
					ShapeSnap got = snapShape(*D, c);
					size_t at = 0;
					auto failr = [&](const std::string& cls, const std::string& m) { ctx.viol(cls, where + " [clone '" + cl.first + "' of " + want.type + " '" + want.name + "']: " + m); };
					if (got.nv != want.nv) failr("clone:restart:numVertices", std::to_string(got.nv) + " vs " + std::to_string(want.nv));
					if (!sameV3(got.verts, want.verts, 0, &at)) failr("clone:restart:vertices", "positions differ at " + std::to_string((long) at));
					if (!sameV2(got.uvs, want.uvs, 0, &at)) failr("clone:restart:uvs", "UVs differ at " + std::to_string((long) at));
					if (!sameC4(got.colors, want.colors, 0, &at)) failr("clone:restart:colors", "colours differ");
					if (!msn && !sameV3(got.normals, want.normals, 0, &at)) failr("clone:restart:normals", "normals differ at " + std::to_string((long) at));
					std::multiset<TriKey> ta, tb;
					for (auto& t : got.tris) ta.insert(canonTri(t));
					for (auto& t : want.tris) tb.insert(canonTri(t));
					if (ta != tb) failr("clone:restart:triangles", "triangle multiset differs");
					if (got.bones != want.bones) failr("clone:restart:bone-list", "bone list differs");
					if (got.boneWeights != want.boneWeights) failr("clone:restart:boneWeights", "bone weights differ");
					if (got.vertWeights != want.vertWeights) failr("clone:restart:vertWeights", "per-vertex weights differ");
				}
				if (jbool(st, "raw", true) && !dstDefaultSaved) {
					// raw saves only so far: nothing was recomputed, so the whole subgraph must equal the source's stored form
					std::vector<std::string> parts;
					uint64_t sg = shapeSig(*D, c, msn, &parts);
					if (cl.second != 0 && sg != cl.second) {
						std::string d = "shape block fields differ";
						auto& sp2 = cloneParts[cl.first];
						for (size_t i = 0; i < sp2.size() || i < parts.size(); i++) {
							std::string x = i < sp2.size() ? sp2[i] : "-", y = i < parts.size() ? parts[i] : "-";
							if (x != y) { d = "first differing part: source " + x + " / clone " + y; break; }
						}
						ctx.viol("clone:not-intact-after-restart", where + ": after save and reload the clone '" + cl.first + "' does not carry the content the source has in stored form (" + d + ")");
					}
				}
			}
			ctx.probe("clone_survived_restart", (long) clones.size());
		}
		else if (op == "DeleteClone") {
			// the user removes the clone made last from the destination again (and goes on cloning)
			if (clones.empty()) { stepNo++; continue; }
			std::string nm = clones.back().first;
			NiShape* c = D->FindBlockByName<NiShape>(nm);
			if (c) {
				D->DeleteShape(c);
				ctx.probe("clone_deleted_again");
				trace += "X";
				ctx.sig.tag("delclone");
			}
			clones.pop_back();
			cloneParts.erase(nm);
			cloneStoredSnap.erase(nm);
		}
		else if (op == "DestroySrc") {
			if (sameModel || !S) { stepNo++; continue; }
			Obs before = observe(*D, ctx);
			setStage("DestroySrc:dtor");
			S.reset();
			ctx.fault("actor_destroyed");
			trace += "X";
			setStage("DestroySrc:use-destination");
			Obs after = observe(*D, ctx);
			ctx.hist.u64(batteryDigest(*D, ctx, 1, nullptr, false));
			if (before.usable && after.usable && before.bytes != after.bytes) ctx.viol("clone:destination-changed-by-source-destruction", where);
			ctx.probe("destination_used_after_source_destroyed");
		}
		else if (op == "UseDst") {
			ctx.hist.u64(batteryDigest(*D, ctx, 1, nullptr, false));
			for (auto s : D->GetShapes()) checkShapeIndices(*D, s, ctx, where);
			trace += "U";
		}
		stepNo++;
	}
	ctx.info["interleaving"] = trace;
	setStage("final-dtor");
	if (jbool(plan, "destroy_dest_first", false)) { Downed.reset(); S.reset(); }
	else { S.reset(); Downed.reset(); }
}

} // namespace sim
