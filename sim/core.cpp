// nifsim — hook glue, save/load via simulated streams, samples, versions.
#include "sim.hpp"
#include <dirent.h>
#include <fstream>

namespace sim {

// ---------------------------------------------------------------------------------------------
struct WriteHookCtx {
	WriteMap* map;
	SimOBuf* ob;
};
static void wh_field(void* c, int mode, int kind, size_t size, const char* type) {
	auto h = static_cast<WriteHookCtx*>(c);
	if (mode == 1 && h->map->wantFields) h->map->fields.push_back({uint32_t(h->ob->tell()), uint8_t(kind), uint32_t(size), type});
}
static void wh_ref(void* c, int mode, NiRef* ref, const char* pretty) {
	auto h = static_cast<WriteHookCtx*>(c);
	if (mode == 1) h->map->refs.push_back({uint32_t(h->ob->tell()), ref, pretty});
}
static void wh_str(void* c, int mode, NiStringRef* ref) {
	auto h = static_cast<WriteHookCtx*>(c);
	if (mode == 1) h->map->strs.push_back({uint32_t(h->ob->tell()), ref});
}

struct HookScope {
	verif::Hooks hooks;
	verif::Hooks* prev;
	HookScope(WriteHookCtx* c) {
		hooks.ctx = c;
		hooks.field = wh_field;
		hooks.blockref = wh_ref;
		hooks.strref = wh_str;
		prev = verif::hooks;
		verif::hooks = &hooks;
	}
	~HookScope() { verif::hooks = prev; }
};

std::string refTargetType(const char* pretty) {
	std::string s = pretty ? pretty : "";
	auto p = s.find("T = ");
	if (p == std::string::npos) return "";
	p += 4;
	auto e = s.find_first_of("];,", p);
	std::string t = s.substr(p, e == std::string::npos ? std::string::npos : e - p);
	auto c = t.rfind("::");
	// keep nested names like BSSkin::Instance: strip only the leading namespace
	if (t.rfind("nifly::", 0) == 0) t = t.substr(7);
	else if (t.rfind("nifly_ref::", 0) == 0) t = t.substr(11);
	(void) c;
	return t;
}

SaveOut saveNif(NifFile& nif, const SaveSpec& spec) {
	SaveOut out;
	SimOBuf ob;
	ob.failAfter = spec.failAfter;
	ob.keepLog = spec.keepLog;
	bool runPipe = simPipeSaves() && (!simPipeAlternate() || (simSaveCounter()++ % 2 == 0));
	ob.seekable = !(spec.nonSeekable || runPipe);
	std::ostream os(&ob);
	NifSaveOptions o;
	if (spec.raw) { o.optimize = false; o.sortBlocks = false; }
	else if (simSaveOptions() == 1) o.sortBlocks = false;
	else if (simSaveOptions() == 2) o.optimize = false;
	if (spec.map) {
		WriteHookCtx hc{spec.map, &ob};
		HookScope hs(&hc);
		out.rc = nif.Save(os, o);
	}
	else
		out.rc = nif.Save(os, o);
	out.streamFailed = ob.failed || !os;
	out.bytes = std::move(ob.data);
	out.log = std::move(ob.log);
	return out;
}

LoadOut loadNif(NifFile& nif, const std::string& bytes, size_t limit, bool eio) {
	LoadOut out;
	SimIBuf ib(bytes, limit, eio);
	std::istream is(&ib);
	out.rc = nif.Load(is);
	out.consumed = ib.consumed();
	out.hitLimit = ib.hitLimit;
	out.streamBad = is.bad();
	return out;
}

std::string putBlock(NiHeader& hdr, NiObject* obj, WriteMap* map) {
	SimOBuf ob;
	std::ostream os(&ob);
	NiOStream nos(&os, &hdr);
	if (map) {
		WriteHookCtx hc{map, &ob};
		HookScope hs(&hc);
		obj->Put(nos);
	}
	else
		obj->Put(nos);
	return std::move(ob.data);
}

// ---------------------------------------------------------------------------------------------
struct Peek : NiFactoryRegister {
	static std::vector<std::string> names() {
		std::vector<std::string> v;
		auto& m = NiFactoryRegister::Get().*(&Peek::m_registrations);
		for (auto& kv : m) v.push_back(kv.first);
		std::sort(v.begin(), v.end());
		return v;
	}
};
const std::vector<std::string>& allBlockTypes() {
	static std::vector<std::string> v = Peek::names();
	return v;
}

static std::map<std::string, std::string> g_samples;
const std::map<std::string, std::string>& samples() { return g_samples; }
static void loadDir(const std::string& dir, const std::string& prefix) {
	std::vector<std::string> names;
	if (DIR* d = opendir(dir.c_str())) {
		while (auto e = readdir(d)) {
			std::string n = e->d_name;
			if (n.size() > 4 && n.substr(n.size() - 4) == ".nif") names.push_back(n);
		}
		closedir(d);
	}
	std::sort(names.begin(), names.end());
	for (auto& n : names) {
		std::ifstream f(dir + "/" + n, std::ios::binary);
		std::stringstream ss;
		ss << f.rdbuf();
		std::string key = n.substr(0, n.size() - 4);
		if (key.rfind("TestNifFile_", 0) == 0) key = key.substr(12);
		g_samples[prefix + key] = ss.str();
	}
}
void loadSamples(const std::string& repo) {
	loadDir(repo + "/tests/input", "in/");
	loadDir(repo + "/tests/expected", "exp/");
}

struct VerEntry { const char* name; NiVersion v; };
static const std::vector<VerEntry>& verTable() {
	static std::vector<VerEntry> t = {
		{"OB", NiVersion::getOB()},
		{"FO3", NiVersion::getFO3()},
		{"SK", NiVersion::getSK()},
		{"SSE", NiVersion::getSSE()},
		{"FO4", NiVersion::getFO4()},
		{"FO4_132", NiVersion(V20_2_0_7, 12, 132)},
		{"FO4_139", NiVersion(V20_2_0_7, 12, 139)},
		{"FO76", NiVersion::getFO76()},
		{"SF", NiVersion::getSF()},
		{"SF173", NiVersion(V20_2_0_7, 12, 173)},
		{"OB10_2", NiVersion(V10_2_0_0, 10, 9)},
		{"OB20_0_0_4", NiVersion(V20_0_0_4, 11, 11)},
		{"OB10_1_0_106", NiVersion(V10_1_0_106, 10, 5)},
		{"FO3_11", NiVersion(V20_2_0_7, 11, 21)},
	};
	return t;
}
NiVersion versionByName(const std::string& name) {
	for (auto& e : verTable())
		if (name == e.name) return e.v;
	return NiVersion::getSSE();
}
std::string versionName(const NiVersion& v) {
	for (auto& e : verTable())
		if (e.v.File() == v.File() && e.v.User() == v.User() && e.v.Stream() == v.Stream()) return e.name;
	char b[64];
	snprintf(b, sizeof b, "%08x/%u/%u", unsigned(v.File()), v.User(), v.Stream());
	return b;
}

} // namespace sim
