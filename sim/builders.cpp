#include "sim.hpp"
namespace sim {
bool builderInitial(const json&, NifFile&, Ctx&) { return false; }
}
