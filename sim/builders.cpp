// nifsim — constructed models (DESIGN 4.3).
#include "builders.hpp"
#include <cmath>

namespace sim {

Mesh makeMesh(uint32_t nv, uint32_t nt, uint64_t salt, bool halfExact) {
	Mesh m;
	Rng r(salt * 0x9E37 + nv * 31 + 7);
	m.v.resize(nv);
	m.uv.resize(nv);
	m.n.resize(nv);
	m.c.resize(nv);
	for (uint32_t i = 0; i < nv; i++) {
		if (halfExact) {
			m.v[i] = Vector3((int(r.below(257)) - 128) / 8.0f, (int(r.below(257)) - 128) / 8.0f, (int(r.below(257)) - 128) / 8.0f);
			m.uv[i] = Vector2(r.below(257) / 256.0f, r.below(257) / 256.0f);
		}
		else {
			m.v[i] = Vector3(r.range(-100.f, 100.f), r.range(-100.f, 100.f), r.range(-100.f, 100.f));
			m.uv[i] = Vector2(r.range(-2.f, 3.f), r.range(-2.f, 3.f));
		}
		// distinct positions keep "same vertex" heuristics of the library out of the picture
		m.v[i].x += halfExact ? 0.0f : float(i) * 1e-3f;
		Vector3 n(r.range(-1.f, 1.f), r.range(-1.f, 1.f), r.range(-1.f, 1.f));
		float len = std::sqrt(n.x * n.x + n.y * n.y + n.z * n.z);
		if (len < 1e-3f) n = Vector3(0, 0, 1);
		else { n.x /= len; n.y /= len; n.z /= len; }
		m.n[i] = n;
		m.c[i] = Color4(r.below(256) / 255.0f, r.below(256) / 255.0f, r.below(256) / 255.0f, r.below(256) / 255.0f);
	}
	// families of fans: family k holds (a, a+k+1, a+k+2); all triangles are pairwise distinct up to rotation
	if (nv >= 3) {
		for (uint32_t k = 0; k + 3 <= nv && m.t.size() < nt; k++)
			for (uint32_t a = 0; a + k + 2 < nv && m.t.size() < nt; a++) m.t.push_back(Triangle(uint16_t(a), uint16_t(a + k + 1), uint16_t(a + k + 2)));
		// shuffle deterministically so that triangle order is not monotone in the vertex index
		for (size_t i = m.t.size(); i > 1; i--) std::swap(m.t[i - 1], m.t[r.below(uint32_t(i))]);
	}
	return m;
}

static MatTransform randomXform(Rng& r) {
	MatTransform x;
	x.translation = Vector3(r.range(-20.f, 20.f), r.range(-20.f, 20.f), r.range(-20.f, 20.f));
	if (r.chance(0.5)) x.rotation = RotVecToMat(Vector3(r.range(-1.5f, 1.5f), r.range(-1.5f, 1.5f), r.range(-1.5f, 1.5f)));
	if (r.chance(0.2)) x.scale = r.range(0.5f, 2.0f);
	return x;
}

NiShape* buildShape(NifFile& nif, const json& s, Ctx& ctx) {
	auto& hdr = nif.GetHeader();
	NiVersion ver = hdr.GetVersion();
	uint64_t salt = ju64(s, "salt", 1);
	Rng r(salt * 1315423911ull + 17);
	uint32_t nv = uint32_t(jint(s, "nv", 12));
	uint32_t nt = uint32_t(jint(s, "nt", 16));
	bool halves = ver.IsFO4() || ver.IsFO76();
	Mesh m = makeMesh(nv, nt, salt, jbool(s, "halfexact", halves));
	// the name-based setters of the API address the first shape with a given name: build under a unique
	// working name and give the shape its (possibly clashing) final name at the end
	std::string finalName = jstr(s, "name", "shape");
	std::string name = "__build_" + std::to_string(hdr.GetNumBlocks()) + "_" + finalName;
	bool wantUV = jbool(s, "uv", true), wantN = jbool(s, "normals", true);
	std::string kind = jstr(s, "kind", "auto");

	NiShape* shape = nullptr;
	if (kind == "strips" && !(ver.IsSSE() || ver.IsFO4() || ver.IsFO76() || ver.IsSF())) {
		// NiTriStrips + NiTriStripsData assembled from public members (no API creates strips)
		auto data = std::make_unique<NiTriStripsData>();
		uint32_t nstrips = 1 + r.below(3);
		uint32_t pos = 0;
		for (uint32_t k = 0; k < nstrips && pos + 3 <= nv; k++) {
			uint32_t remain = nv - pos;
			uint32_t len = k + 1 == nstrips ? remain : std::max(3u, remain / (nstrips - k));
			std::vector<uint16_t> pts;
			for (uint32_t i = 0; i < len; i++) pts.push_back(uint16_t(pos + i));
			data->stripsInfo.points.push_back(pts);
			uint16_t plen = uint16_t(pts.size());
			data->stripsInfo.stripLengths.push_back(plen);
			pos += len;
		}
		{
			std::vector<Triangle> st = data->StripsToTris(); // sets the triangle counter through the public Create
			data->Create(ver, &m.v, &st, wantUV ? &m.uv : nullptr, wantN ? &m.n : nullptr);
		}
		auto strips = std::make_unique<NiTriStrips>();
		strips->name.get() = name;
		strips->SetGeomData(data.get());
		strips->DataRef()->index = hdr.AddBlock(std::move(data));
		auto texset = std::make_unique<BSShaderTextureSet>(ver);
		if (ver.IsSK()) {
			auto sh = std::make_unique<BSLightingShaderProperty>(ver);
			sh->TextureSetRef()->index = hdr.AddBlock(std::move(texset));
			strips->ShaderPropertyRef()->index = hdr.AddBlock(std::move(sh));
		}
		else {
			auto sh = std::make_unique<BSShaderPPLightingProperty>();
			sh->TextureSetRef()->index = hdr.AddBlock(std::move(texset));
			strips->propertyRefs.AddBlockRef(hdr.AddBlock(std::move(sh)));
		}
		shape = strips.get();
		uint32_t id = hdr.AddBlock(std::move(strips));
		nif.GetRootNode()->childRefs.AddBlockRef(id);
		ctx.probe("built_strips");
	}
	else if (kind == "meshlod" && (ver.IsSSE() || ver.IsFO4())) {
		auto lod = std::make_unique<BSMeshLODTriShape>();
		lod->Create(ver, &m.v, &m.t, wantUV ? &m.uv : nullptr, wantN ? &m.n : nullptr);
		lod->SetSkinned(false);
		uint32_t ntri = lod->GetNumTriangles();
		lod->lodSize0 = ntri / 2;
		lod->lodSize1 = ntri / 4;
		lod->lodSize2 = ntri - lod->lodSize0 - lod->lodSize1;
		auto texset = std::make_unique<BSShaderTextureSet>(ver);
		auto sh = std::make_unique<BSLightingShaderProperty>(ver);
		sh->TextureSetRef()->index = hdr.AddBlock(std::move(texset));
		lod->ShaderPropertyRef()->index = hdr.AddBlock(std::move(sh));
		lod->name.get() = name;
		shape = lod.get();
		uint32_t id = hdr.AddBlock(std::move(lod));
		nif.GetRootNode()->childRefs.AddBlockRef(id);
		ctx.probe("built_meshlod");
	}
	else if (kind == "dynamic" && ver.IsSSE()) {
		auto dyn = std::make_unique<BSDynamicTriShape>();
		dyn->Create(ver, &m.v, &m.t, wantUV ? &m.uv : nullptr, wantN ? &m.n : nullptr);
		dyn->SetSkinned(false);
		auto texset = std::make_unique<BSShaderTextureSet>(ver);
		auto sh = std::make_unique<BSLightingShaderProperty>(ver);
		sh->TextureSetRef()->index = hdr.AddBlock(std::move(texset));
		dyn->ShaderPropertyRef()->index = hdr.AddBlock(std::move(sh));
		dyn->name.get() = name;
		shape = dyn.get();
		uint32_t id = hdr.AddBlock(std::move(dyn));
		nif.GetRootNode()->childRefs.AddBlockRef(id);
		ctx.probe("built_dynamic");
	}
	else {
		shape = nif.CreateShapeFromData(name, &m.v, &m.t, wantUV ? &m.uv : nullptr, wantN ? &m.n : nullptr);
	}
	if (!shape) return nullptr;

	if (jbool(s, "colors", false)) {
		std::string cm = jstr(s, "color_mode", "random");
		if (cm != "random") {
			for (size_t i = 0; i < m.c.size(); i++) {
				float a = cm == "white_alpha" ? float(r.below(256)) / 255.0f : 1.0f;
				m.c[i] = Color4(1.0f, 1.0f, 1.0f, a);
			}
			if (cm == "white_but_one" && !m.c.empty()) {
				Color4& c = m.c[r.below(uint32_t(m.c.size()))];
				switch (r.below(4)) { case 0: c.r = 254 / 255.0f; break; case 1: c.g = 0.5f; break; case 2: c.b = 0.0f; break; default: c.a = 254 / 255.0f; }
			}
			ctx.probe("built_colors_" + cm);
		}
		nif.SetColorsForShape(shape, m.c);
		ctx.probe("built_colors");
	}
	if (jbool(s, "tangents", false) && wantUV && wantN) nif.CalcTangentsForShape(shape);
	if (jbool(s, "eyedata", false) && dynamic_cast<BSTriShape*>(shape)) {
		std::vector<float> eye(shape->GetNumVertices());
		for (auto& e : eye) e = r.below(9) / 8.0f;
		auto bs = dynamic_cast<BSTriShape*>(shape);
		bs->SetEyeData(true);
		NifFile::SetEyeDataForShape(shape, eye);
		ctx.probe("built_eyedata");
	}
	if (jbool(s, "fullprec", false) && dynamic_cast<BSTriShape*>(shape) && (ver.IsFO4() || ver.IsFO76())) {
		dynamic_cast<BSTriShape*>(shape)->SetFullPrecision(true);
		ctx.probe("built_fullprec");
	}
	{
		std::string tex = "textures\\verif\\t" + std::to_string(salt % 97) + ".dds";
		nif.SetTextureSlot(shape, tex, 0);
		if (r.chance(0.5)) {
			std::string tn = "textures\\verif\\t" + std::to_string(salt % 89) + "_n.dds";
			nif.SetTextureSlot(shape, tn, 1);
		}
	}
	if (jbool(s, "two_uv_sets", false) && hdr.GetVersion().Stream() < 34) {
		// Oblivion-era files keep the number of UV sets in the low bits of the geometry data flags; two sets are common there
		if (auto gd = hdr.GetBlock<NiGeometryData>(shape->DataRef()))
			if (gd->uvSets.size() == 1 && gd->uvSets[0].size() == gd->GetNumVertices()) {
				gd->uvSets.push_back(gd->uvSets[0]);
				for (auto& uv : gd->uvSets[1]) { uv.u = 1.0f - uv.u; uv.v += 0.25f; }
				gd->dataFlags = uint16_t((gd->dataFlags & ~0x3F) | 2);
				ctx.probe("built_two_uv_sets");
			}
	}
	if (jbool(s, "alpha", false)) nif.AssignAlphaProperty(shape, std::make_unique<NiAlphaProperty>());
	if (jbool(s, "legacy_texturing", false) && hdr.GetVersion().Stream() <= 34) {
		// Oblivion / Fallout 3 style texturing: NiTexturingProperty -> NiSourceTexture in the shape's property list, with file
		// names as exporters leave them (the loader cleans them up)
		static const char* paths[] = {"Data\\Textures\\effects\\glow.dds", "textures/armor/cuirass.dds", "data\\textures\\a\\textures\\b.dds", "textures\\clean.dds", " textures\\blank.dds ", "C:\\Games\\Data\\Textures\\x.dds"};
		auto tp = std::make_unique<NiTexturingProperty>();
		int ntex = 1 + int(r.below(2));
		for (int k = 0; k < ntex; k++) {
			auto st = std::make_unique<NiSourceTexture>();
			st->fileName.get() = paths[r.below(6)];
			uint32_t sid = hdr.AddBlock(std::move(st));
			if (k == 0) { tp->hasBaseTex = true; tp->baseTex.sourceRef.index = sid; }
			else { tp->hasGlowTex = true; tp->glowTex.sourceRef.index = sid; }
		}
		if (r.chance(0.4)) {
			// a decal in the first decal slot (texture count 7: the standard Oblivion layout)
			auto st = std::make_unique<NiSourceTexture>();
			st->fileName.get() = "textures\\decals\\blood.dds";
			tp->hasDecalTex0 = true;
			tp->decalTex0.sourceRef.index = hdr.AddBlock(std::move(st));
			ctx.probe("built_decal_texture");
		}
		uint32_t tid = hdr.AddBlock(std::move(tp));
		shape->propertyRefs.AddBlockRef(tid);
		// the same strings are used by another block as well (an unknown block may hide such a use)
		auto ed = std::make_unique<NiStringExtraData>();
		ed->name.get() = "TexNote";
		ed->stringData.get() = paths[r.below(6)];
		nif.AssignExtraData(shape, std::move(ed));
		ctx.probe("built_legacy_texturing");
	}
	if (jbool(s, "xform", false)) shape->SetTransformToParent(randomXform(r));

	// ---- skin ----
	int nbones = jint(s, "bones", 0);
	if (nbones > 0 && !ver.IsFO76() && !ver.IsSF()) {
		nif.CreateSkinning(shape);
		std::vector<int> ids;
		std::vector<NiNode*> made;
		for (int b = 0; b < nbones; b++) {
			std::string bn = finalName + "_" + std::to_string(hdr.GetNumBlocks()) + "_Bone" + std::to_string(b);
			NiNode* parent = (!made.empty() && r.chance(0.4)) ? made[r.below(uint32_t(made.size()))] : nullptr;
			auto nd = nif.AddNode(bn, randomXform(r), parent);
			made.push_back(nd);
		}
		for (auto nd : made) ids.push_back(int(nif.GetBlockID(nd)));
		nif.SetShapeBoneIDList(shape, ids);
		int wpv = jint(s, "wpv", 3);
		bool bs = dynamic_cast<BSTriShape*>(shape) != nullptr;
		if (bs && wpv > 4) wpv = 4; // per-vertex storage holds four influences; keep both stores consistent
		uint16_t nvv = shape->GetNumVertices();
		std::vector<std::unordered_map<uint16_t, float>> perBone(nbones);
		for (uint16_t vi = 0; vi < nvv; vi++) {
			int k = wpv == 0 ? 0 : 1 + int(r.below(uint32_t(wpv)));
			if (jbool(s, "some_unweighted", false) && r.chance(0.1)) k = 0;
			k = std::min(k, nbones);
			std::vector<int> bones;
			while (int(bones.size()) < k) {
				int b = int(r.below(uint32_t(nbones)));
				if (std::find(bones.begin(), bones.end(), b) == bones.end()) bones.push_back(b);
			}
			std::vector<float> w;
			float sum = 0;
			for (int j = 0; j < k; j++) { w.push_back(float(1 + r.below(64))); sum += w.back(); }
			// exactly representable, normalised, sorted by descending weight (what real files look like)
			std::vector<std::pair<float, int>> bw;
			for (int j = 0; j < k; j++) bw.push_back({w[j] / sum, bones[j]});
			std::sort(bw.begin(), bw.end(), [](auto& a, auto& b2) { return a.first > b2.first || (a.first == b2.first && a.second < b2.second); });
			for (auto& p : bw) perBone[p.second][vi] = p.first;
			if (bs) {
				std::vector<uint8_t> bi;
				std::vector<float> ww;
				for (auto& p : bw) { bi.push_back(uint8_t(p.second)); ww.push_back(p.first); }
				if (!bi.empty() && nbones <= 255) nif.SetShapeVertWeights(name, vi, bi, ww);
			}
		}
		for (int b = 0; b < nbones; b++) {
			nif.SetShapeBoneWeights(name, uint32_t(b), perBone[b]);
			nif.SetShapeTransformSkinToBone(shape, uint32_t(b), randomXform(r));
			BoundingSphere bsph;
			bsph.center = Vector3(r.range(-5.f, 5.f), r.range(-5.f, 5.f), r.range(-5.f, 5.f));
			bsph.radius = r.range(0.f, 10.f);
			nif.SetShapeBoneBounds(name, uint32_t(b), bsph);
		}
		int nparts = jint(s, "partitions", 1);
		if (!(ver.IsFO4() || ver.IsFO76())) {
			if (nparts > 1) {
				NiVector<BSDismemberSkinInstance::PartitionInfo> pinfo;
				for (int p = 0; p < nparts; p++) {
					BSDismemberSkinInstance::PartitionInfo pi;
					pi.partID = uint16_t(30 + p);
					pinfo.push_back(pi);
				}
				std::vector<int> labels(shape->GetNumTriangles());
				for (auto& l : labels) l = int(r.below(uint32_t(nparts)));
				nif.SetShapePartitions(shape, pinfo, labels);
			}
			nif.UpdateSkinPartitions(shape);
		}
		// SE files written by the game tools often carry the weights only per vertex (NiSkinData without weights), and the
		// four influence slots of a vertex need not be filled from the front
		if (bs && ver.IsSSE() && jbool(s, "sparse_slots", false)) {
			auto bsShape = dynamic_cast<BSTriShape*>(shape);
			for (auto& vd : bsShape->vertData) {
				// move the second influence (if any) from slot 1 to slot 2 or 3
				if (vd.weights[1] > 0.0f && vd.weights[2] == 0.0f && vd.weights[3] == 0.0f) {
					int to = 2 + int(r.below(2));
					vd.weights[to] = vd.weights[1];
					vd.weightBones[to] = vd.weightBones[1];
					vd.weights[1] = 0.0f;
					vd.weightBones[1] = 0;
				}
			}
			ctx.probe("built_sparse_weight_slots");
		}
		if (bs && ver.IsSSE() && jbool(s, "no_skindata_weights", false)) {
			if (auto si = hdr.GetBlock<NiSkinInstance>(shape->SkinInstanceRef()))
				if (auto sd = hdr.GetBlock(si->dataRef)) {
					for (auto& b : sd->bones) { b.vertexWeights.clear(); b.numVertices = 0; }
					sd->hasVertWeights = 0;
					ctx.probe("built_without_skindata_weights");
				}
		}
		ctx.probe("built_skinned");
	}

	// ---- FO4 segments ----
	if (s.contains("segments") && dynamic_cast<BSSubIndexTriShape*>(shape)) {
		const json& sg = s["segments"];
		NifSegmentationInfo inf;
		int id = 0;
		std::vector<int> leaves;
		for (auto& nsub : sg["subs"]) {
			NifSegmentInfo si;
			si.partID = id++;
			int ns = nsub.get<int>();
			for (int j = 0; j < ns; j++) {
				NifSubSegmentInfo ss;
				ss.partID = id++;
				ss.userSlotID = r.chance(0.5) ? 30 + r.below(20) : 0;
				ss.material = r.below(1000);
				if (r.chance(0.4)) ss.extraData = {1.0f, 2.0f};
				si.subs.push_back(ss);
				leaves.push_back(ss.partID);
			}
			if (ns == 0) leaves.push_back(si.partID);
			inf.segs.push_back(si);
		}
		inf.ssfFile = jstr(sg, "ssf", "");
		std::vector<int> labels(shape->GetNumTriangles());
		for (auto& l : labels) l = leaves.empty() ? -1 : leaves[r.below(uint32_t(leaves.size()))];
		NifFile::SetShapeSegments(shape, inf, labels);
		ctx.probe("built_segments");
	}

	if (jbool(s, "lockednorm", false)) {
		auto ed = std::make_unique<NiIntegersExtraData>();
		ed->name.get() = "LOCKEDNORM";
		uint16_t nvv = shape->GetNumVertices();
		for (uint16_t i = 0; i < nvv; i++)
			if (r.chance(0.3)) { uint32_t iv = i; ed->integersData.push_back(iv); }
		nif.AssignExtraData(shape, std::move(ed));
		ctx.probe("built_lockednorm");
	}
	if (jbool(s, "msn", false) && (ver.IsSK() || ver.IsSSE())) {
		if (auto sh = dynamic_cast<BSLightingShaderProperty*>(nif.GetShader(shape))) {
			sh->shaderFlags1 |= SLSF1_MODEL_SPACE_NORMALS;
			ctx.probe("built_msn");
		}
	}
	if (jbool(s, "dyn_flag", false)) nif.SetShapeDynamic(name);
	NifFile::RenameShape(shape, finalName);
	return shape;
}

bool builderInitial(const json& spec, NifFile& nif, Ctx& ctx) {
	nif.Create(versionByName(jstr(spec, "version", "SSE")));
	Rng r(ju64(spec, "salt", 1) + 99);
	int nodes = jint(spec, "nodes", 0);
	std::vector<NiNode*> made;
	for (int i = 0; i < nodes; i++) {
		NiNode* parent = (!made.empty() && r.chance(0.5)) ? made[r.below(uint32_t(made.size()))] : nullptr;
		// "dup_nodes": several nodes share a name (legal; name lookups then find the first one)
		std::string nm = jbool(spec, "dup_nodes", false) ? "Node" + std::to_string(i % 2) : "Node" + std::to_string(i);
		made.push_back(nif.AddNode(nm, randomXform(r), parent));
	}
	if (spec.contains("shapes"))
		for (auto& s : spec["shapes"]) {
			NiShape* sh = buildShape(nif, s, ctx);
			if (sh && jint(s, "under_node", -1) >= 0 && !made.empty()) nif.SetParentNode(sh, made[size_t(jint(s, "under_node")) % made.size()]);
		}
	return true;
}

} // namespace sim
