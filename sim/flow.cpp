// nifsim — fault-enumeration profiles: C16 (truncation: F-CRASH / F-EOF / F-EIO / F-TORN) and
// C15 (corrupted stored references: F-ROT). One plan = one stored file + a batch of fault cases;
// each case: damaged image -> load -> query battery -> copy -> save (default, raw) -> reload -> battery.
#include "sim.hpp"
#include <unistd.h>

namespace sim {

struct StoredFile {
	std::string bytes;             // raw save of the initial model (the library's own normal form)
	nifparse::Parsed hdr;
	std::vector<size_t> blockOff;  // start offset of every block payload
	std::vector<size_t> blockLen;
	struct RefField { size_t off; uint32_t owner; std::string target; uint32_t value; };
	std::vector<RefField> refs;
	std::vector<std::vector<uint32_t>> parents; // by child refs, intact graph
	std::vector<std::pair<size_t, std::string>> tornLog;
	std::vector<std::string> blockTypes;
};

// Builds the stored file and its reference-field map.
static bool buildStored(const json& init, Ctx& ctx, StoredFile& sf, bool keepLog) {
	NifFile nif;
	if (!makeInitial(init, nif, ctx)) return false;
	WriteMap wm;
	SaveSpec sp;
	sp.map = &wm;
	sp.keepLog = keepLog;
	sp.raw = !jbool(init, "store_sorted", false); // stored as the default save leaves it (sorted: a shape precedes its data) or in the order it was built
	SaveOut so = saveNif(nif, sp);
	if (so.rc != 0) return false;
	sf.bytes = so.bytes;
	sf.tornLog = so.log;
	sf.hdr = nifparse::parse(sf.bytes);
	if (!sf.hdr.ok) return false;
	auto& hdr = nif.GetHeader();
	uint32_t nb = hdr.GetNumBlocks();
	size_t o = sf.hdr.headerEnd;
	for (uint32_t i = 0; i < nb; i++) {
		size_t len = sf.hdr.hasSizes ? sf.hdr.sizes[i] : putBlock(hdr, hdr.GetBlock<NiObject>(i)).size();
		sf.blockOff.push_back(o);
		sf.blockLen.push_back(len);
		sf.blockTypes.push_back(hdr.GetBlockTypeStringById(i));
		o += len;
	}
	for (auto& r : wm.refs) {
		if (r.off < sf.hdr.headerEnd || r.off + 4 > sf.bytes.size()) continue;
		uint32_t owner = 0;
		while (owner + 1 < nb && sf.blockOff[owner + 1] <= r.off) owner++;
		uint32_t val;
		memcpy(&val, &sf.bytes[r.off], 4);
		sf.refs.push_back({r.off, owner, refTargetType(r.pretty), val});
	}
	sf.parents.assign(nb, {});
	for (uint32_t i = 0; i < nb; i++) {
		auto b = hdr.GetBlock<NiObject>(i);
		std::set<NiRef*> cr;
		b->GetChildRefs(cr);
		std::set<uint32_t> seen;
		for (auto r : cr)
			if (r->index < nb && seen.insert(r->index).second) sf.parents[r->index].push_back(i);
	}
	return true;
}

static void flow(const std::string& img, size_t limit, bool eio, Ctx& ctx, const json& knobs) {
	setStage("load");
	auto nif = std::make_unique<NifFile>();
	LoadOut lo = loadNif(*nif, img, limit, eio);
	ctx.hist.i(lo.rc);
	ctx.probe(lo.rc == 0 ? "load_ok" : "load_rejected");
	if (lo.hitLimit) ctx.probe("reader_hit_cut");
	if (lo.streamBad) ctx.probe("reader_saw_badbit");
	ctx.checkUbsan("load");
	uint64_t salt = ju64(knobs, "battery_salt", 1);
	ctx.hist.u64(batteryDigest(*nif, ctx, salt));
	ctx.checkUbsan("battery");
	if (jbool(knobs, "copy", true)) {
		setStage("copy");
		NifFile c(*nif);
		ctx.hist.u64(batteryDigest(c, ctx, salt));
		ctx.checkUbsan("copy");
		setStage("copy-dtor");
	}
	if (lo.rc != 0) {
		// Load reported an error and cleared the model: nothing was loaded, so there is nothing to save
		// (saving an invalid NifFile is API misuse, outside C15/C16). Query + destroy were exercised above/below.
		setStage("dtor");
		nif.reset();
		ctx.checkUbsan("destroy");
		setStage("case-done");
		return;
	}
	setStage("save-default");
	SaveSpec d;
	d.raw = false;
	SaveOut s1 = saveNif(*nif, d);
	ctx.hist.i(s1.rc);
	ctx.hist.str(s1.bytes);
	ctx.checkUbsan("save(default)");
	setStage("save-raw");
	SaveOut s2 = saveNif(*nif, SaveSpec());
	ctx.hist.str(s2.bytes);
	ctx.checkUbsan("save(raw)");
	if (lo.rc == 0 && s1.rc == 0) {
		setStage("reload");
		NifFile m;
		LoadOut l2 = loadNif(m, s1.bytes);
		ctx.hist.i(l2.rc);
		ctx.checkUbsan("reload");
		if (ctx.property == "C15" && l2.rc != 0)
			ctx.viol("saved-output-not-loadable", "output of Save after loading the damaged file does not load (rc=" + std::to_string(l2.rc) + ")");
		if (l2.rc == 0) {
			ctx.probe("reload_ok");
			ctx.hist.u64(batteryDigest(m, ctx, salt));
			ctx.checkUbsan("battery(reloaded)");
		}
		setStage("reload-dtor");
	}
	setStage("dtor");
	nif.reset();
	ctx.checkUbsan("destroy");
	setStage("case-done");
}

static uint32_t corruptValue(const StoredFile& sf, const StoredFile::RefField& rf, const std::string& kind, uint64_t a) {
	uint32_t nb = uint32_t(sf.blockOff.size());
	if (kind == "empty") return 0xFFFFFFFFu;
	if (kind == "count") return nb;
	if (kind == "beyond") {
		static const uint32_t big[] = {0x7FFFFFFFu, 0xFFFFFFFEu, 0x80000000u, 65536u};
		if (a % 5 == 4) return big[(a / 5) % 4];
		return nb + 1 + uint32_t(a % 1000);
	}
	if (kind == "self") return rf.owner;
	if (kind == "root") return 0;
	if (kind == "ancestor") {
		uint32_t cur = rf.owner;
		uint64_t steps = 1 + a % 4;
		for (uint64_t i = 0; i < steps; i++) {
			if (sf.parents[cur].empty()) break;
			cur = sf.parents[cur][a % sf.parents[cur].size()];
		}
		return cur;
	}
	if (kind == "sametype") {
		// a block of the same type as the one designated now (typed lookups succeed; cross-object size assumptions do not hold)
		if (rf.value < nb)
			for (uint32_t k = 0; k < nb; k++) {
				uint32_t c = uint32_t((a + k) % nb);
				if (c != rf.value && sf.blockTypes[c] == sf.blockTypes[rf.value]) return c;
			}
	}
	if (kind == "wrongtype") {
		for (uint32_t k = 0; k < nb; k++) {
			uint32_t c = uint32_t((a + k) % nb);
			if (sf.blockTypes[c] != rf.target && c != rf.value) return c;
		}
	}
	return nb ? uint32_t(a % nb) : 0; // "rand"
}

// profile "describe": layout of the stored file (for the plan generator in check.py)
void profile_describe(const json& plan, Ctx& ctx) {
	StoredFile sf;
	if (!buildStored(plan["init"], ctx, sf, true)) { ctx.info = {{"ok", false}}; return; }
	json refs = json::array();
	for (auto& r : sf.refs) refs.push_back({r.off, r.owner, r.target, r.value});
	size_t traceBytes = 0;
	for (auto& w : sf.tornLog) traceBytes += w.second.size();
	ctx.info = {{"ok", true}, {"size", sf.bytes.size()}, {"headerEnd", sf.hdr.headerEnd}, {"blockOff", sf.blockOff},
				{"blockLen", sf.blockLen}, {"types", sf.blockTypes}, {"refs", refs}, {"traceBytes", traceBytes},
				{"hasSizes", sf.hdr.hasSizes}, {"hash", hex64(hashBytes(sf.bytes))}};
}

// profile "flow": plan = {init, cases:[...], from}
void profile_flow(const json& plan, Ctx& ctx) {
	ctx.ubsanIsViolation = true;
	json knobs = plan.value("knobs", json::object());
	bool needLog = false;
	for (auto& c : plan["cases"])
		if (c.contains("cut") && jstr(c, "mode") == "torn") needLog = true;
	StoredFile sf;
	setStage("build-stored");
	if (!buildStored(plan["init"], ctx, sf, needLog)) { ctx.info = {{"rejected_init", true}}; return; }
	if (g_progress && g_progress->ubsan) { // UB while preparing the *intact* file: not a fault case
		ctx.note(std::string("ubsan while preparing intact file: ") + g_progress->ubsanFirst);
		g_progress->ubsan = 0;
	}
	ctx.hist.str(sf.bytes);
	int from = jint(plan, "from", 0);
	int perCaseTimeout = jint(plan, "case_timeout_s", 20);
	const json& cases = plan["cases"];
	long nontriv = 0;
	for (int ci = from; ci < (int) cases.size(); ci++) {
		const json& c = cases[ci];
		if (g_progress) g_progress->caseIdx = ci;
		alarm(perCaseTimeout);
		ctx.hist.i(ci);
		if (c.contains("cut")) {
			size_t k = c["cut"].get<size_t>();
			std::string mode = jstr(c, "mode", "eof");
			if (mode == "torn") {
				// image left by a writer killed after k bytes of the real write trace
				SimOBuf tmp;
				tmp.log = sf.tornLog;
				std::string img = tmp.tornImage(k);
				ctx.fault("F-TORN");
				flow(img, std::string::npos, false, ctx, knobs);
			}
			else if (mode == "crash") {
				// durable image = first k bytes (file physically shorter)
				ctx.fault("F-CRASH");
				flow(sf.bytes.substr(0, std::min(k, sf.bytes.size())), std::string::npos, false, ctx, knobs);
			}
			else {
				ctx.fault(mode == "eio" ? "F-EIO" : "F-EOF");
				flow(sf.bytes, k, mode == "eio", ctx, knobs);
			}
			if (k > sf.hdr.headerEnd && k < sf.bytes.size()) nontriv++;
		}
		else if (c.contains("patch")) {
			std::string img = sf.bytes;
			if (sf.refs.empty()) continue;
			bool changed = false;
			for (auto& p : c["patch"]) {
				auto& rf = sf.refs[p["f"].get<uint64_t>() % sf.refs.size()];
				std::string kind = jstr(p, "k", "rand");
				uint32_t v = corruptValue(sf, rf, kind, ju64(p, "a", 0));
				if (v != rf.value) changed = true;
				memcpy(&img[rf.off], &v, 4);
				ctx.fault("F-ROT:" + kind);
			}
			if (changed) nontriv++;
			flow(img, std::string::npos, false, ctx, knobs);
		}
		ctx.steps++;
	}
	alarm(0);
	ctx.nontrivial = nontriv > 0;
	ctx.info = {{"nontrivial_cases", nontriv}, {"cases_run", (long) cases.size() - from}, {"file_size", sf.bytes.size()}, {"refs", sf.refs.size()}};
}

} // namespace sim
