// placeholder (C08 adapter, compiled once per library build)
#include <string>
#define CAT2(a,b) a##b
#define CAT(a,b) CAT2(a,b)
#define FN(name) CAT(PFX,name)
int FN(placeholder)() { return 0; }
