// nifsim — C08 adapter, compiled once per library build: PFX=cur_ against the working tree (namespace nifly,
// harness namespace sim) and PFX=ref_ against the vendored pinned tree (-Dnifly=nifly_ref -Dsim=sim_ref).
// Only std::string crosses the boundary between the two builds.
#include "sim.hpp"
#define CAT2(a, b) a##b
#define CAT(a, b) CAT2(a, b)
#define FN(name) CAT(PFX, name)

namespace sim {
bool synthInitial(const json& spec, NifFile& nif, Ctx& ctx, std::string* fileBytes);
}

// load + raw save by this build; rc = Load's return code; consumed = bytes the loader read
std::string FN(roundtrip)(const std::string& in, int* rc, long* consumed) {
	nifly::NifFile n;
	sim::LoadOut lo = sim::loadNif(n, in);
	*rc = lo.rc;
	*consumed = long(lo.consumed);
	if (lo.rc != 0) return std::string();
	return sim::saveNif(n, sim::SaveSpec()).bytes;
}

// file synthesised by this build's own Get() (typed generator); empty if this build does not accept it
std::string FN(synth)(const std::string& specJson) {
	sim::json spec = sim::json::parse(specJson);
	sim::Ctx ctx;
	nifly::NifFile n;
	std::string bytes;
	if (!sim::synthInitial(spec, n, ctx, &bytes)) return std::string();
	return bytes;
}
