// nifsim — shared NifFile-level edit operations.
#pragma once
#include "sim.hpp"
namespace sim {
// applies one edit step to nif; `other` is the source model for cross-model operations (CloneShape) or null.
// returns true if the step took effect.
bool applyEdit(NifFile& nif, const json& step, Ctx& ctx, NifFile* other = nullptr);
const std::vector<std::string>& editOps();
} // namespace sim
