#!/bin/bash
# Apply a seeded change to /repo, run the quick checks given (default: all registered), undo the change.
# usage: tools/try_mutant.sh <patch.diff> [Cxx ...]
set -u
patch="$1"; shift
props="$@"
[ -z "$props" ] && props=$(python3 -c "import json; print(' '.join(c['property_id'] for c in json.load(open('/verif/MANIFEST.json'))['checks']))")
cd /verif
if ! git -C /repo diff --quiet; then echo "repo has local changes; abort"; exit 2; fi
git -C /repo apply "$patch" || { echo "patch does not apply"; exit 2; }
trap 'git -C /repo checkout -- . ; echo "[reverted]"' EXIT
for p in $props; do
  out=$(VERIF_SEED=${VERIF_SEED:-1} python3 check.py $p --tier ${TIER:-quick} 2>&1)
  rc=$?
  echo "== $p exit=$rc :: $(echo "$out" | grep -E "^$p (quick|thorough)" | tail -1)"
  echo "$out" | grep -E "^VIOLATION|^  class=|^KNOWN|^MACHINERY" | head -8
done
rm -rf /verif/replays/*/ 2>/dev/null
