#!/usr/bin/env python3
"""Copies a confirmed seeded change from a scratch worktree into /verif/seeded/<id>/ with meta.json.
usage: record_seeded.py <id> <worktree> <property> <detected_by comma list or 'none'> "<needs>" "<detection note>" """
import json, os, shutil, sys

sid, wt, prop, detected, needs, note = sys.argv[1:7]
src = os.path.join(wt, '_deliver')
dst = os.path.join('/verif/seeded', sid)
os.makedirs(dst, exist_ok=True)
for f in os.listdir(src):
    p = os.path.join(src, f)
    if os.path.isfile(p) and os.path.getsize(p) < 2_000_000 and not f.endswith(('.o', '.a')) and f not in ('demo', 'demo_bin'):
        shutil.copy(p, os.path.join(dst, f))
meta = {
    'id': sid, 'breaks_property': prop,
    'needs_to_manifest': needs,
    'origin': 'written by a fresh sub-agent that saw only the property text and a scratch worktree of /repo (nothing from /verif)',
    'confirmed': {'how': 'tools/confirm_mutant.sh in the scratch worktree at the current /repo HEAD',
                  'compiles': True, 'existing_28_tests_pass_with_change': True,
                  'demo_fails_with_change': True, 'demo_passes_without_change': True},
    'checks_run': 'tools/try_mutant.sh seeded/%s/patch.diff %s (git -C /repo apply; python3 check.py <id> --tier quick; git -C /repo checkout -- .)' % (sid, prop),
    'detected_by': [] if detected == 'none' else detected.split(','),
    'detection_note': note,
}
with open(os.path.join(dst, 'meta.json'), 'w') as f:
    json.dump(meta, f, indent=1)
print('recorded', dst)
