#!/usr/bin/env python3
"""Regenerates /verif/MANIFEST.json from the table below (one entry per registered check)."""
import json, os, subprocess

VERIF = os.path.dirname(os.path.dirname(os.path.abspath(__file__)))
DST = 'deterministic simulation with fault injection'

CHECKS = {
    'C01': ('exploration',
            'Restart cycles (save, forget, load) over the 52 sample files, files synthesised with populated fields for every registered block type x 13 version '
            'configurations x seeds, API-built models, and all of these after block-graph edits (subtree unlinked from its node, blocks moved to another on-disk order, rebuilt reference lists, added / removed nodes and shapes): raw F2 == F1 byte for byte, default G3 == G2.',
            'Reach comes from the typed generator (inputs x configurations); restart is the only event, the schedule/fault dimension is degenerate. Rejected inputs are counted, not judged.',
            DST + ': restart cycles over typed-synthesis inputs (hook-driven generator), byte-level fixed-point oracle'),
    'C08': ('exploration',
            'Two builds of the library (working tree and the vendored pinned tree, namespace nifly_ref) run in one simulated world and exchange files synthesised by either '
            'build for every block type x version plus the samples; each must consume the other\'s output exactly and re-encode it to the same bytes through one encoder.',
            'The reference is the pinned tree 32497ec + hooks; inputs on which the reference is not self-consistent are skipped and counted.',
            DST + ': mixed-version world (two library builds exchanging files), stage-marked runs, canonical re-encoding oracle'),
    'C11': ('exploration',
            'Two or three actors own copies of one model (copy-construct, assign over an empty or loaded model, copy of a copy); a seeded interleaving of edit steps on one '
            'with observations of the others, then destruction in either order followed by further use of the survivor, under ASan.',
            'Edits are NifFile-level API calls; observations are raw saves taken twice (self-stabilising) plus geometry queries through shapes.',
            DST + ': seeded interleaving of actors on copied models incl. destruction order, byte/observation oracle under ASan'),
    'C12': ('exploration',
            'Histories load|build (LE or SE) -> OptimizeFor(options) -> restart -> OptimizeFor(back) -> restart with a mesh model captured before: positions bit-exact, triangle '
            'multiset, UV/colour within storage precision (colour channel may only be dropped when every colour is opaque white), bone list, top-4 renormalised weights, shader/parents, distinct sibling names, partition invariants.',
            'Tolerances come from the code\'s own packing; normals/tangents are not compared for model-space shaders.',
            DST + ': conversion histories with restarts against an executable mesh model and quantisation table'),
    'C13': ('exploration',
            'Histories Create -> CreateShapeFromData -> setters/getters -> restart per version OB/FO3/SK/SSE/FO4/FO76 on random meshes incl. the 1 and 65535 limits, against '
            'the mesh model and the quantisation table.',
            'Setters get matching sizes; documented side effects are in the model.',
            DST + ': create/set/get histories with restarts against an executable mesh model and quantisation table'),
    'C14': ('exploration',
            'Actors S (source) and D (destination: same model, fresh model, other loaded model of the same game): repeated CloneShape interleaved with observations of S, restart of D, '
            'destruction of S before further use of D; plus a sweep in which a populated block of every registered type (x 6 versions) hangs type-correctly below the cloned shape.',
            'Graph comparisons are up to block renumbering.',
            DST + ': seeded interleaving of source/destination actors incl. destruction order and restart, content-equality oracle under ASan'),
    'C02': ('exploration',
            'Seeded histories load|build -> edits -> save -> queries -> save -> save on one live model (raw and default options) compare the bytes of '
            'consecutive saves (after canonical string-table renumbering) and the query-battery digest around every save; a fault configuration fails the '
            'first save after k bytes (ENOSPC/EIO) and requires the later saves to equal those of a fault-free twin; every synthesised type x version cell is also run after block-level edits (rebuilt reference lists, moved blocks, unlinked subtrees). Sampling, not proof.',
            'Trusts the NIFLY_VERIF string-reference hook for canonical string comparison; default-option runs compare only from the first save on.',
            DST + ': save/query/save histories with injected write failure (F-WFAIL) and restarts, twin-run oracle'),
    'C03': ('exploration',
            'Stored type names of sample and synthesised files are relabelled to names without a factory (every singleton, all, seeded subsets: a reader '
            'older than the writer); the output of raw and default saves is parsed by the independent header reader and compared block by block.',
            'Only files with a block-size table (20.2.0.5+); the independent reader nifparse is trusted.',
            DST + ': version-skew fault (F-SKEW) on the simulated disk image, independent-reader oracle'),
    'C04': ('exploration',
            'Seeded histories of PrettySortBlocks / Optimize / SetShapeOrder (identity, reversal, permutation, duplicate, missing, wrong-length names) / default '
            'save on samples, grown graphs and synthesised graphs, checked against a graph model keyed by block identity.',
            'Block identity is the NiObject address (blocks are moved, never re-allocated, by sorting); bounding spheres and child order are not compared.',
            DST + ': sort/prune histories with restarts against an executable graph model'),
    'C05': ('exploration',
            'A transfer monitor records every block and string reference passing through Put/Get of populated instances of all registered block types in all '
            'supported versions (typed synthesis) and compares with the owner\'s enumerations; consequence check by delete/reorder + restart.',
            'Reach comes from the typed generator (inputs x configurations); the schedule/fault dimension is degenerate for this property.',
            DST + ': per-transfer monitor inside simulated save/load of synthesised blocks (typed generator)'),
    'C06': ('exploration',
            'Seeded histories of AddBlock / DeleteBlock / ReplaceBlock / SetBlockOrder / DeleteBlockByType / DeleteUnreferencedBlocks in lock-step with a graph '
            'model (every reference a block enumerates or serialises), compared after every step, with restarts.',
            'Only valid ids/permutations are issued; references of added blocks are compared after restart only if serialised in that version.',
            DST + ': block-edit histories with restarts in lock-step with an executable graph model'),
    'C07': ('exploration',
            'Every file written after seeded edit histories (vertex deletion, cloning, added blocks and nodes, conversion, string edits) is walked by the '
            'independent reader from the header tables to the footer; string table and string indices are validated via the string hook. Saves go to seekable and non-seekable streams, follow failed saves, and the NifFile object is reused across files and versions.',
            'nifparse and the string-reference hook are trusted.',
            DST + ': write monitor on every durable save of edit histories with stream faults (F-NOSEEK, F-WFAIL) and object reuse (F-REUSE), independent-reader oracle'),
    'C09': ('exploration',
            'Seeded histories of DeleteVertsForShape (single, prefix, suffix, random, alternate, all) with restarts on sample and API-built shapes of every '
            'geometry kind, compared step by step with the naive deletion model; every index and counter is validated.',
            'Deleted index lists are sorted, unique, in range; emptied shapes are checked for index validity only.',
            DST + ': vertex-deletion histories with crash/restart against an executable mesh model'),
    'C10': ('exploration',
            'Seeded histories of partition assignment / rebuild / deletion / vertex deletion / restart on skinned shapes (samples; API-built with up to 120 '
            'bones, 0-6 weights per vertex, OB/FO3/SK/SSE) checked against cover-once, vertex-map, bone-limit, weight and alignment invariants.',
            'Full invariants are required after UpdateSkinPartitions and, after a restart, only for shapes rebuilt since their last edit.',
            DST + ': partition histories with restarts against cover-once / limit invariants'),
    'C15': ('fault_enumeration',
            'Every stored reference field of each file x every corruption kind (empty, =count, beyond, self, ancestor, root, wrong type, other block of the same type, random) is enumerated (singles); doubles/triples are seeded samples. Each damaged image '
            'runs load -> query battery -> copy -> save x2 -> reload under ASan+UBSan with a watchdog.',
            'Trusts the block-reference hook to locate reference fields; sanitizers + watchdog are the oracle.',
            DST + ': storage corruption (F-ROT) enumerated over reference fields, zygote fork-per-run, sanitizer/watchdog oracle'),
    'C16': ('fault_enumeration',
            'Every cut offset of the small files and boundary/stride/seeded offsets of the large ones, in four fault modes (EOF, EIO/badbit, physically '
            'short file, torn write trace), each followed by query battery, copy, two saves, reload and destruction under ASan+UBSan with a watchdog.',
            'Only sanitizer-visible misbehaviour is judged. Saves are skipped when Load returned an error (nothing was loaded).',
            DST + ': crash / short read / EIO at enumerated offsets of the simulated disk image, sanitizer/watchdog oracle'),
    'C17': ('exploration',
            'Seeded histories of SetShapeSegments / SetShapePartitions (labels incl. -1, empty and permuted ids, labels on segments with sub-segments), vertex '
            'deletions and restarts; labels, stable triangle order and range structure are carried through by a model.',
            'Labels come from the ids present plus -1; builder triangles are pairwise distinct.',
            DST + ': label histories with deletions and restarts against an executable labelling model'),
}

NA = {
    'C18': 'The index/strip templates in NifUtil.hpp are pure functions of their arguments: no state, stream, fault, schedule or history for a simulator to own; deciding them would be input generation under another name (DESIGN.md section 7).',
    'C19': 'TrimTexturePaths is a pure function of (string, version, terrain flag); no fault, schedule or interleaving exists for it (DESIGN.md section 7).',
    'C20': 'Transform algebra and Miniball are stateless numeric functions; nothing to schedule, crash or corrupt (DESIGN.md section 7).',
}
PENDING = 'check not registered: not (yet) built to the point where it is sound on the unchanged tree (see DESIGN.md, status section); not claimed'


def main():
    registered = sorted(p for p in CHECKS if os.path.exists(os.path.join(VERIF, 'simlib', 'p_%s.py' % p.lower())))
    checks = []
    for pid in registered:
        cat, text, note, tech = CHECKS[pid]
        checks.append({'property_id': pid, 'quick_cmd': 'python3 check.py %s --tier quick' % pid,
                       'thorough_cmd': 'python3 check.py %s --tier thorough' % pid,
                       'evidence_file': '/verif/evidence/%s.json' % pid, 'replay_cmd_template': 'python3 check.py replay {path}',
                       'engine': 'nifsim',
                       'level_claimed': {'category': cat, 'text': text, 'design_ref': 'DESIGN.md section 6 ' + pid},
                       'level_note': note, 'technique': tech})
    na = []
    for i in range(1, 21):
        pid = 'C%02d' % i
        if pid in registered:
            continue
        na.append({'property_id': pid, 'reason': NA.get(pid, PENDING)})
    commits = subprocess.run(['git', '-C', '/repo', 'log', '--format=%h %s'], stdout=subprocess.PIPE).stdout.decode().strip().split('\n')
    hooks = [c.split()[0] for c in commits if c.split(' ', 1)[1].startswith('verif:')]
    fixes = [c.split()[0] for c in commits if c.split(' ', 1)[1].startswith('fix:')]
    m = {'version': 1, 'setup_cmd': 'make -C /verif -j16 setup',
         'hooks': {'guard': 'NIFLY_VERIF',
                   'enable': '-DNIFLY_VERIF on every translation unit (see /verif/Makefile); callbacks in nifly::verif::hooks, null by default',
                   'baseline_off_cmd': 'cmake --build /repo/_build && ctest --test-dir /repo/_build -j8 --timeout 900',
                   'source_commits': hooks, 'add_only': True},
         'engines': [{'name': 'nifsim', 'path': '/verif/build/nifsim', 'serves_properties': registered,
                      'kind_free_text': 'deterministic simulator: a zygote process forks one child per run (identical heap image, ASLR off); plans (JSON) are '
                                        'generated from VERIF_SEED by check.py; simulated stream buffers and disk; ASan+UBSan build of /repo\'s working tree; '
                                        'violations are minimised (ddmin) and must reproduce twice in fresh processes before they are reported'}],
         'checks': checks, 'not_applicable': na,
         'notes': 'fix: commits in /repo: %s (see known_findings.json). Exit codes: 0 held, 1 violation, 2 machinery failure.' % ' '.join(reversed(fixes))}
    with open(os.path.join(VERIF, 'MANIFEST.json'), 'w') as f:
        json.dump(m, f, indent=1)
    print('registered:', ' '.join(registered))


if __name__ == '__main__':
    main()
