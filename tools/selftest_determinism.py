#!/usr/bin/env python3
"""Determinism self-test (DESIGN 9.1): the same plans are executed (a) on 16 workers, (b) on 3 workers in another
order, (c) a subset in fresh processes; status and history hash (which covers every byte written to the simulated disk)
must agree. Usage: selftest_determinism.py [props...] [--n 200] [--seeds 1,2]"""
import importlib, json, os, sys
sys.path.insert(0, os.path.dirname(os.path.dirname(os.path.abspath(__file__))))
from simlib import pool as poolmod, report
import check


def key(res):
    return (res.get('status'), res.get('hash'), res.get('class'), json.dumps(res.get('probes', {}), sort_keys=True))


def main():
    args = sys.argv[1:]
    n = 200
    seeds = [1, 2]
    if '--n' in args:
        n = int(args[args.index('--n') + 1])
    if '--seeds' in args:
        seeds = [int(x) for x in args[args.index('--seeds') + 1].split(',')]
    props = [a for a in args if a.startswith('C')] or ['C%02d' % i for i in range(1, 18)]
    check.build()
    big = poolmod.Pool(16)
    small = poolmod.Pool(3)
    bad = 0
    total = 0
    try:
        for prop in props:
            mod = importlib.import_module('simlib.p_' + prop.lower())
            for seed in seeds:
                jobs = check.decorate_jobs(mod.jobs('quick', seed, big), seed, prop)
                step = max(1, len(jobs) // n)
                plans = [j['plan'] for j in jobs[::step][:n]]
                for p in plans:  # keep fault batches short
                    if 'cases' in p:
                        p['cases'] = p['cases'][:6]
                r1, _ = big.map(plans, lambda w, p: w.run(p))
                r2, _ = small.map(list(reversed(plans)), lambda w, p: w.run(p))
                r2 = list(reversed(r2))
                div = 0
                for i, (a, b) in enumerate(zip(r1, r2)):
                    total += 1
                    if key(a) != key(b):
                        div += 1
                        if div <= 3:
                            print('DIVERGENCE %s seed=%d plan#%d: %s vs %s' % (prop, seed, i, key(a)[:3], key(b)[:3]))
                            print('  ', json.dumps(plans[i])[:300])
                fresh = 0
                for i in range(0, len(plans), max(1, len(plans) // 12)):
                    c = poolmod.exec_fresh(plans[i])
                    total += 1
                    fresh += 1
                    if key(c) != key(r1[i]):
                        div += 1
                        print('DIVERGENCE(fresh process) %s seed=%d plan#%d: %s vs %s' % (prop, seed, i, key(r1[i])[:3], key(c)[:3]))
                bad += div
                print('%s seed=%d: %d plans x (16 workers, 3 workers reversed) + %d fresh-process replays: %d divergence(s)' % (prop, seed, len(plans), fresh, div))
    finally:
        big.close()
        small.close()
    print('TOTAL comparisons=%d divergences=%d' % (total, bad))
    return 1 if bad else 0


if __name__ == '__main__':
    sys.exit(main())
