#!/bin/bash
# Cross matrix: every seeded change x every registered check, in a private copy of /verif and a private worktree of /repo
# (so that /repo and /verif stay usable meanwhile). usage: tools/matrix.sh <scratch dir> [ids...]
set -u
S="$1"; shift
mkdir -p "$S"
[ -d "$S/repo" ] || git -C /repo worktree add --detach "$S/repo" HEAD >/dev/null 2>&1
git -C "$S/repo" checkout -q -- . ; git -C "$S/repo" checkout -q --detach "$(git -C /repo rev-parse HEAD)"
rsync -a --delete --exclude build --exclude .git --exclude replays /verif/ "$S/verif/"
export NIFLY_REPO="$S/repo"
props=$(python3 -c "import json; print(' '.join(c['property_id'] for c in json.load(open('/verif/MANIFEST.json'))['checks']))")
ids="$@"; [ -z "$ids" ] && ids=$(ls /verif/seeded)
for id in $ids; do
  git -C "$S/repo" apply "/verif/seeded/$id/patch.diff" || { echo "$id: patch does not apply"; continue; }
  line="$id:"
  for p in $props; do
    out=$(cd "$S/verif" && VERIF_SEED=1 timeout 1500 python3 check.py $p --tier quick 2>&1); rc=$?
    [ $rc -eq 1 ] && line="$line $p" ; [ $rc -ge 2 ] && line="$line $p(rc=$rc)"
  done
  echo "$line"
  git -C "$S/repo" checkout -q -- .
  rm -rf "$S/verif/replays"
done
