#!/usr/bin/env python3
"""Extracts the block class hierarchy from the CRTP declarations in nifly's headers.
Emits C++ initialiser lines: {"Derived", "Base"}, used for type-aware reference wiring."""
import re, sys, glob, os
pat = re.compile(r'class\s+(\w+)\s*(?:final\s*)?:\s*public\s+(?:NiCloneableStreamable|NiCloneable)\s*<\s*([\w:]+)\s*,\s*([\w:]+)\s*>')
pat2 = re.compile(r'class\s+(\w+)\s*:\s*public\s+(\w+)\s*\{')
out = {}
for f in sorted(glob.glob(os.path.join(sys.argv[1], '*.hpp'))):
    src = open(f, errors='replace').read()
    for m in pat.finditer(src):
        out[m.group(1)] = m.group(3)
    for m in pat2.finditer(src):
        out.setdefault(m.group(1), m.group(2))
for k in sorted(out):
    print('{"%s", "%s"},' % (k, out[k]))
