#!/bin/bash
# Confirms a seeded change delivered in <worktree>/_deliver against the current /repo HEAD, in that scratch worktree:
#  unpatched: library builds, demo passes;  patched: library builds, all 28 tests pass, demo fails.
# usage: tools/confirm_mutant.sh <worktree>   -> prints CONFIRMED or NOT-CONFIRMED with the reasons
wt="$1"; d="$wt/_deliver"
cd "$wt" || exit 2
git checkout -q -- . ; git checkout -q --detach "$(git -C /repo rev-parse HEAD)" || exit 2
run_demo() {
  if [ -x "$d/run_demo.sh" ] || [ -f "$d/run_demo.sh" ]; then (cd "$wt" && timeout 600 bash "$d/run_demo.sh" >/tmp/confirm_demo.$$ 2>&1); rc=$?
  else (cd "$wt" && g++ -std=c++17 -Iinclude -Iexternal "$d/demo.cpp" _build/src/libnifly.a -o _deliver/demo_bin >/tmp/confirm_demo.$$ 2>&1 && timeout 300 ./_deliver/demo_bin >>/tmp/confirm_demo.$$ 2>&1); rc=$?; fi
  tail -3 /tmp/confirm_demo.$$ | sed 's/^/      /'; rm -f /tmp/confirm_demo.$$; return $rc
}
build() { cmake -G Ninja -B _build -S . -DCMAKE_BUILD_TYPE=RelWithDebInfo >/dev/null 2>&1 && cmake --build _build >/tmp/confirm_build.$$ 2>&1; rc=$?; [ $rc -ne 0 ] && tail -5 /tmp/confirm_build.$$; rm -f /tmp/confirm_build.$$; return $rc; }
ok=1
build || { echo "  unpatched build failed"; ok=0; }
echo "  demo on unpatched tree:"; run_demo; r0=$?; [ $r0 -ne 0 ] && { echo "  demo does not pass without the change (rc=$r0)"; ok=0; }
git apply "$d/patch.diff" || { echo "  patch does not apply to current HEAD"; ok=0; }
build || { echo "  patched build failed"; ok=0; }
t=$(ctest --test-dir _build -j4 --timeout 900 2>&1 | grep "tests passed"); echo "  tests with patch: $t"; echo "$t" | grep -q "100% tests passed, 0 tests failed out of 28" || ok=0
echo "  demo on patched tree:"; run_demo; r1=$?; [ $r1 -eq 0 ] && { echo "  demo does not fail with the change"; ok=0; }
git checkout -q -- . ; build >/dev/null 2>&1
[ $ok -eq 1 ] && echo "CONFIRMED $wt (demo rc without=$r0 with=$r1)" || echo "NOT-CONFIRMED $wt"
