#!/bin/bash
# Sensitivity self-test: every seeded change under /verif/seeded must make the quick check of the property it breaks
# fail (exit 1). Runs in a private copy of /verif and a private worktree of /repo, so /repo and /verif stay usable.
# usage: tools/selftest_sensitivity.sh <scratch dir> [ids...]
set -u
S="$1"; shift
mkdir -p "$S"
[ -d "$S/repo" ] || git -C /repo worktree add --detach "$S/repo" HEAD >/dev/null 2>&1
git -C "$S/repo" checkout -q -- . ; git -C "$S/repo" checkout -q --detach "$(git -C /repo rev-parse HEAD)"
rsync -a --delete --exclude build --exclude .git --exclude replays /verif/ "$S/verif/"
export NIFLY_REPO="$S/repo"
ids="$@"; [ -z "$ids" ] && ids=$(ls /verif/seeded)
miss=0
for id in $ids; do
  p=$(python3 -c "import json; print(json.load(open('/verif/seeded/$id/meta.json'))['breaks_property'])")
  git -C "$S/repo" apply "/verif/seeded/$id/patch.diff" || { echo "$id: patch does not apply to HEAD"; miss=$((miss+1)); continue; }
  out=$(cd "$S/verif" && VERIF_SEED=${VERIF_SEED:-1} timeout 2400 python3 check.py $p --tier quick 2>&1); rc=$?
  cls=$(echo "$out" | grep -m1 "class=" | sed 's/ occurrences.*//')
  if [ $rc -eq 1 ]; then echo "$id: caught by $p ($cls)"; else echo "$id: NOT caught by $p (exit $rc)"; miss=$((miss+1)); fi
  git -C "$S/repo" checkout -q -- .
  rm -rf "$S/verif/replays"
done
echo "missed=$miss"
